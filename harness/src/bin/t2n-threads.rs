//! t2n-threads <requests.ndjson> <observations.ndjson> [threads] [seed]
//! C14: one set of interpreters shared by N threads. This is the only place that requires the interpreters to be
//! `Send + Sync`; if the tree under test loses that, this binary (and only this one) stops compiling and the C14
//! check reports the compiler's message as the violation.

use std::fs::File;
use std::io::{BufWriter, Write};
use std::sync::Arc;

use serde_json::{json, Value};

use t2n_harness::{canonical, run_any, Interps};
use text2num::lang::{Dutch, English, French, German, Italian, Portuguese, Spanish};
use text2num::Language;

fn run_threads(reqs: Vec<Value>, out: &mut dyn Write, nthreads: usize, seed: u64) {
    // (0) compile-time: interpreters can be sent to and shared between threads
    fn assert_send_sync<T: Send + Sync>() {}
    assert_send_sync::<Language>();
    assert_send_sync::<English>();
    assert_send_sync::<French>();
    assert_send_sync::<German>();
    assert_send_sync::<Italian>();
    assert_send_sync::<Spanish>();
    assert_send_sync::<Dutch>();
    assert_send_sync::<Portuguese>();

    let reqs = Arc::new(reqs);
    // (1) reference results: a fresh interpreter for every call
    let fresh_ix = Interps::new(); // only used for type plumbing; `fresh=true` builds new ones
    for (k, r) in reqs.iter().enumerate() {
        let mut r2 = r.clone();
        if r2["mode"] == "interleave" {
            r2["alone"] = json!(true); // reference: each number decoded on its own, by a fresh interpreter
        }
        let v = run_any(&fresh_ix, &r2, true);
        writeln!(out, "{}", json!({"k": k, "who": "fresh", "seq": 0, "res": canonical(&v)})).unwrap();
    }
    // (2) one long-lived set, sequential, two orders
    let shared = Arc::new(Interps::new());
    let n = reqs.len();
    let mut seq = 0usize;
    for pass in 0..2 {
        for j in 0..n {
            let k = if pass == 0 { j } else { n - 1 - j };
            let v = run_any(&shared, &reqs[k], false);
            seq += 1;
            writeln!(out, "{}", json!({"k": k, "who": "seq", "seq": seq, "res": canonical(&v)})).unwrap();
        }
    }
    // (3) N threads hammering the same shared set, each in its own pseudo-random order
    let mut handles = Vec::new();
    for t in 0..nthreads {
        let reqs = Arc::clone(&reqs);
        let shared = Arc::clone(&shared);
        handles.push(std::thread::spawn(move || {
            let mut state = seed
                .wrapping_mul(6364136223846793005)
                .wrapping_add(1442695040888963407u64.wrapping_mul(t as u64 + 1));
            let mut log = Vec::new();
            let n = reqs.len();
            for s in 0..n {
                state = state
                    .wrapping_mul(6364136223846793005)
                    .wrapping_add(1442695040888963407);
                let k = ((state >> 33) as usize) % n;
                let v = run_any(&shared, &reqs[k], false);
                log.push((k, s, canonical(&v)));
            }
            log
        }));
    }
    for (t, h) in handles.into_iter().enumerate() {
        match h.join() {
            Ok(log) => {
                for (k, s, res) in log {
                    writeln!(out, "{}", json!({"k": k, "who": format!("t{}", t), "seq": s, "res": res})).unwrap();
                }
            }
            Err(_) => {
                writeln!(out, "{}", json!({"k": -1, "who": format!("t{}", t), "seq": 0, "res": "thread-panic"})).unwrap();
            }
        }
    }
}


fn main() {
    let args: Vec<String> = std::env::args().collect();
    if args.len() < 3 {
        eprintln!("usage: t2n-threads <requests.ndjson> <observations.ndjson> [threads] [seed]");
        std::process::exit(2);
    }
    t2n_harness::silence_panics();
    let mut reqs = t2n_harness::load_requests("text", &args[1]);
    for r in reqs.iter_mut() {
        if r["mode"] == "threads" {
            r["mode"] = json!("text");
        }
    }
    let mut out = BufWriter::new(File::create(&args[2]).expect("create observations"));
    let nthreads: usize = args.get(3).and_then(|x| x.parse().ok()).unwrap_or(8);
    let seed: u64 = args.get(4).and_then(|x| x.parse().ok()).unwrap_or(1);
    run_threads(reqs, &mut out, nthreads, seed);
    out.flush().unwrap();
}
