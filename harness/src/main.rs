//! t2n-harness <mode> <requests.ndjson> <observations.ndjson>   (see lib.rs)

use std::fs::File;
use std::io::{BufWriter, Write};

fn main() {
    let args: Vec<String> = std::env::args().collect();
    if args.len() < 4 || args[1] == "threads" {
        eprintln!("usage: t2n-harness <mode> <requests.ndjson> <observations.ndjson>   (threads: use t2n-threads)");
        std::process::exit(2);
    }
    t2n_harness::silence_panics();
    let reqs = t2n_harness::load_requests(&args[1], &args[2]);
    let mut out = BufWriter::new(File::create(&args[3]).expect("create observations"));
    t2n_harness::run_plain(&reqs, &mut out);
    out.flush().unwrap();
}
