SPECIFICATION Spec
CONSTANTS
  Bug_ShiftNonAtomic = TRUE
  Bug_PushIgnoresFrozen = FALSE
  Bug_PositionFreeUnderflow = FALSE
  L = "en"
  MaxLen = 3
INVARIANT DigitsInv
CHECK_DEADLOCK FALSE
