SPECIFICATION Spec
CONSTANTS
  Bug_ShiftNonAtomic = FALSE
  Bug_PushIgnoresFrozen = FALSE
  Bug_PositionFreeUnderflow = FALSE
  L = "en"
  RLow = {0, 1, 2, 7, 10, 11, 16, 20, 21, 71, 80, 81, 88, 99, 100, 101, 181, 500, 999}
  RHigh = {0, 1, 2, 100}
  MaxZeros = 1
INVARIANT NeverSplit
INVARIANT RoundTrip
CHECK_DEADLOCK FALSE
