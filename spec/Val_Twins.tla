------------------------------ MODULE Val_Twins ------------------------------
(***************************************************************************)
(* Validator of two-run records (C10, C11, C17, C18): the property is a    *)
(* relation between the observations of a text and of its variants.        *)
(***************************************************************************)
EXTENDS Props, Json, IOUtils, SequencesExt
Rec == ndJsonDeserialize(IOEnv.TRACE)
Prop == IOEnv.PROP
V(r) == CASE Prop = "C11" -> VerdictC11(r.q, r.multi)
          [] Prop = "C17" -> VerdictC17(r.q, r.multi)
          [] Prop = "C18" -> VerdictC18(r.q, r.multi)
          [] Prop = "C10" -> VerdictC10(r.q, r.multi)
Bad == {x \in {[l |-> l, i |-> Rec[l].i, k |-> 1, verdict |-> V(Rec[l])] : l \in 1..Len(Rec)} : x.verdict # ""}
NObs == LET RECURSIVE sum(_) sum(l) == IF l = 0 THEN 0 ELSE Len(Rec[l].multi) + sum(l - 1) IN sum(Len(Rec))
ASSUME JsonSerialize(IOEnv.OUT, [events |-> NObs, pbad |-> SetToSeq(Bad), drift |-> <<>>])
=============================================================================
