SPECIFICATION Spec
CONSTANTS
  Bug_ShiftNonAtomic = FALSE
  Bug_PushIgnoresFrozen = FALSE
  Bug_PositionFreeUnderflow = FALSE
  L = "en"
  RLow = {0, 1, 12, 21, 100, 181, 999}
  RHigh = {0, 2}
  Fracs = {"5", "0", "05", "50", "00", "007", "123", "100", "010", "9", "999999", "100000", "000001", "21", "80"}
INVARIANT DecOnlyAfterInt
INVARIANT OneDecimal
INVARIANT SepLeftAlone
CHECK_DEADLOCK FALSE
