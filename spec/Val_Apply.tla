------------------------------ MODULE Val_Apply ------------------------------
(***************************************************************************)
(* Stateful validation of S2: a recorded run is a sequence of words pushed *)
(* through the real interpreter's apply (or apply_decimal) on ONE builder; *)
(* after every word the harness logged the result and the full projection  *)
(* of the builder (rendering, buffer, leading zeroes, frozen, flags,       *)
(* marker) and the word predicates (is_decimal_sep, is_linking).  The      *)
(* model Lang!Apply is folded along the run and compared after each step.  *)
(* This is pure drift (binding of M to the code): it never gives a verdict. *)
(***************************************************************************)
EXTENDS Lang, Vocab, Json, IOUtils, SequencesExt
Rec == ndJsonDeserialize(IOEnv.TRACE)
Proj(ds, st, L, w) == [st |-> st, r |-> Render(ds), b |-> ds.buf, lz |-> ds.lz, fz |-> ds.frozen, fl |-> ds.flags, mk |-> ds.marker,
                       sep |-> IsDecimalSep(L, w), link |-> w \in Linking[L]]
ImplProj(e) == [st |-> e.st, r |-> e.r, b |-> e.b, lz |-> e.lz, fz |-> e.fz, fl |-> e.fl, mk |-> e.mk, sep |-> e.sep, link |-> e.link]
RECURSIVE FirstDiff(_, _, _, _, _, _)
FirstDiff(L, ds, words, steps, i, dec) ==
  IF i > Len(words) THEN 0
  ELSE LET r == IF dec THEN ApplyDecimal(L, words[i], ds) ELSE Apply(L, words[i], ds) IN
       IF Proj(r.ds, r.st, L, words[i]) # ImplProj(steps[i]) THEN i ELSE FirstDiff(L, r.ds, words, steps, i + 1, dec)
Drift == {x \in {[l |-> l, i |-> Rec[l].i, step |-> FirstDiff(Rec[l].q.lang, New, Rec[l].q.words, Rec[l].steps, 1, Rec[l].q.dec)] : l \in 1..Len(Rec)} : x.step # 0}
NSteps == LET RECURSIVE sum(_) sum(l) == IF l = 0 THEN 0 ELSE Len(Rec[l].steps) + sum(l - 1) IN sum(Len(Rec))
ASSUME JsonSerialize(IOEnv.OUT, [events |-> NSteps, pbad |-> <<>>, drift |-> SetToSeq(Drift), drift_checked |-> NSteps])
=============================================================================
