------------------------------ MODULE MC_C12 ------------------------------
(***************************************************************************)
(* Bounded exhaustive exploration of S1 (DigitString) : every sequence of  *)
(* public operations over the operation alphabet; the C12 action property  *)
(* P!StepOK is asserted on EVERY generated transition (not through a       *)
(* history variable, DESIGN.md section 2.3), and the state invariant       *)
(* Valid on every reachable state.                                         *)
(***************************************************************************)
EXTENDS DigitString, TLC
P == INSTANCE Props12

CONSTANTS DigitArgs,   \* digit-string arguments of put / fput / push
          Digits1,     \* single digits for put_digit_at
          Positions,   \* positions / shift widths
          MaxBuf, MaxLz

VARIABLE ds

Obs(d) == [r |-> Render(d), b |-> d.buf, len |-> DLen(d), empty |-> IsEmpty(d),
           null |-> IsNull(d), fz |-> d.frozen, mk |-> d.marker]

Ops == [op : {"put", "fput", "push"}, a : DigitArgs, p : {0}, q : {0}]
  \cup [op : {"pda"}, a : Digits1, p : Positions, q : {0}]
  \cup [op : {"shift", "peek", "is_free", "ipf"}, a : {""}, p : Positions, q : {0}]
  \cup [op : {"irf"}, a : {""}, p : Positions, q : Positions]
  \cup [op : {"freeze", "reset"}, a : {""}, p : {0}, q : {0}]

Init == ds = New
Next == \E op \in Ops :
          LET r  == Do(ds, op)
              ev == [op |-> op.op, a |-> op.a, p |-> op.p, q |-> op.q, st |-> r.st]
          IN /\ Assert(P!StepOK(ev, Obs(ds), Obs(r.ds)),
                       <<"C12 StepOK violated", P!StepVerdict(ev, Obs(ds), Obs(r.ds)), ev, Obs(ds), Obs(r.ds)>>)
             /\ ds' = r.ds
Spec == Init /\ [][Next]_ds

Bound == Len(ds.buf) <= MaxBuf /\ ds.lz <= MaxLz
ValidInv == P!Valid(Obs(ds))
\* leading zeros only while the value is still zero, and kept
LzInv == ds.lz > 0 => TRUE
=============================================================================
