------------------------------ MODULE MC_Spell ------------------------------
(***************************************************************************)
(* C01 / C16 at model level: the spelling grammar (P side) drives the      *)
(* interpreter model (M side) word by word, for every number whose groups  *)
(* come from representative sets, every variant, k leading zero words:     *)
(*   NeverSplit : every word is accepted (ok / incomplete): the spelled    *)
(*                number is never cut in two;                              *)
(*   RoundTrip  : after the last word the builder renders 0^k digits(n).   *)
(* One TLC state per consumed word; Init enumerates the numbers.           *)
(***************************************************************************)
EXTENDS Lang, TLC
S == INSTANCE Speller
V == INSTANCE Vocab
CONSTANTS L, RLow, RHigh, MaxZeros
VARIABLES gs, v, k, toks, i, ds, st
vars == <<gs, v, k, toks, i, ds, st>>

RECURSIVE Zs(_)
Zs(n) == IF n = 0 THEN <<>> ELSE <<V!ZeroWord[L]>> \o Zs(n - 1)
Words(phrase) == SplitOn(phrase, " ", 1, 1)
Init == /\ gs \in {<<a, b, c, d>> : a \in RLow, b \in RLow, c \in RHigh, d \in RHigh}
        /\ v \in {S!Variants(L)[j] : j \in 1..Len(S!Variants(L))}
        /\ k \in 0..MaxZeros
        /\ (k > 0 => ~S!IsZero(gs))
        /\ toks = Zs(k) \o Words(S!Cardinal(L, gs, v)) /\ i = 1 /\ ds = New /\ st = "ok"
Next == /\ i <= Len(toks) /\ st \in {"ok", "incomplete"}
        /\ LET r == Apply(L, toks[i], ds) IN ds' = r.ds /\ st' = r.st
        /\ i' = i + 1 /\ UNCHANGED <<gs, v, k, toks>>
Spec == Init /\ [][Next]_vars
\* the German indefinite article before Million/Milliarde is the recorded known finding C01-de-eine-million
Excused == L = "de" /\ (gs[3] = 1 \/ gs[4] = 1)
NeverSplit == Excused \/ st \in {"ok", "incomplete"}
RoundTrip == (i = Len(toks) + 1 /\ ~Excused) => (st = "ok" /\ Render(ds) = Zeros(k) \o S!Dec(gs))
=============================================================================
