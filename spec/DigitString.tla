--------------------------- MODULE DigitString ---------------------------
(***************************************************************************)
(* S1 -- the digit builder (src/digit_string.rs), implementation-shaped.   *)
(*                                                                         *)
(* State of one builder: a record                                          *)
(*   [buf, lz, frozen, flags, marker]                                      *)
(* buf    : the digit buffer as a *string* (TLC supports \o, Len, SubSeq   *)
(*          on strings), most significant digit first, like Vec<u8>;       *)
(* lz     : number of leading zeroes accepted while the buffer was empty;  *)
(* frozen : no more mutation accepted;                                     *)
(* flags  : interpreter scratch (u64 in the code, small naturals here);    *)
(* marker : "none" | "ord:<suffix>" | "frac:<suffix>".                      *)
(*                                                                         *)
(* Every mutator is a pure operator  Op(ds, args) -> [st, ds]  with        *)
(* st \in {"ok","overlap","frozen"}; this is the form in which the         *)
(* interpreters (Lang_*.tla) use the builder as their "runtime".           *)
(* The operators model the REPAIRED code (DESIGN.md section 4): a failed   *)
(* shift writes nothing, push honours frozen, is_position_free and         *)
(* is_range_free are total.  The original behaviours are kept as           *)
(* CONSTANT-switchable mutants (the Bug_ constants) used as negative controls.          *)
(***************************************************************************)
EXTENDS Naturals, Sequences, Chars

CONSTANTS Bug_ShiftNonAtomic,       \* original: buffer[l-1] := '1' before the overlap test
          Bug_PushIgnoresFrozen,    \* original: push never looks at `frozen`
          Bug_PositionFreeUnderflow \* original: is_position_free on an empty buffer underflows

RECURSIVE Zeros(_)
Zeros(n) == IF n = 0 THEN "" ELSE "0" \o Zeros(n - 1)
AllZeros(s) == \A i \in 1..Len(s) : Ch(s, i) = "0"

New == [buf |-> "", lz |-> 0, frozen |-> FALSE, flags |-> 0, marker |-> "none"]
R(st, ds) == [st |-> st, ds |-> ds]

(* ---- queries ---------------------------------------------------------- *)
Render(ds)  == Zeros(ds.lz) \o ds.buf                    \* to_string
DLen(ds)    == Len(ds.buf) + ds.lz                       \* len
IsEmpty(ds) == ds.buf = "" /\ ds.lz = 0                  \* is_empty
IsNull(ds)  == ds.buf = ""                               \* is_null
IsOrdinal(ds) == Len(ds.marker) >= 4 /\ SubSeq(ds.marker, 1, 4) = "ord:"
Peek(ds, p) == LET l == Len(ds.buf)  r == IF l < p THEN l ELSE p
               IN SubSeq(ds.buf, l - r + 1, l)           \* peek
IsFree(ds, p) == IsEmpty(ds) \/ AllZeros(Peek(ds, p))    \* is_free
IsRangeFree(ds, s, e) ==                                 \* is_range_free (inclusive); repaired: total
  LET l == Len(ds.buf) IN
  IF s >= l \/ s > e THEN TRUE
  ELSE LET left == IF e >= l THEN 0 ELSE l - e - 1       \* 0-based start index
       IN AllZeros(SubSeq(ds.buf, left + 1, l - s))
IsPositionFree(ds, p) ==                                 \* is_position_free; repaired: total
  LET l == Len(ds.buf) IN
  IF l = 0 THEN TRUE
  ELSE (p > l - 1) \/ Ch(ds.buf, l - p) = "0"

(* ---- mutators --------------------------------------------------------- *)
Put(ds, d) ==
  IF ds.frozen THEN R("frozen", ds)
  ELSE IF ds.buf = "" /\ d = "0" THEN R("ok", [ds EXCEPT !.lz = @ + 1])
  ELSE IF AllZeros(d) THEN R("overlap", ds)
  ELSE LET l == Len(ds.buf)  p == Len(d) IN
    IF l = 0 THEN R("ok", [ds EXCEPT !.buf = d])
    ELSE IF l < p THEN R("overlap", ds)
    ELSE IF AllZeros(SubSeq(ds.buf, l - p + 1, l))
         THEN R("ok", [ds EXCEPT !.buf = SubSeq(ds.buf, 1, l - p) \o d])
         ELSE R("overlap", ds)

PutDigitAt(ds, c, pos) ==
  IF ds.frozen THEN R("frozen", ds)
  ELSE IF c = "0" THEN R("overlap", ds)
  ELSE LET l == Len(ds.buf) IN
    IF pos >= l THEN R("ok", [ds EXCEPT !.buf = c \o Zeros(pos - l) \o ds.buf])
    ELSE IF Ch(ds.buf, l - pos) = "0"
         THEN R("ok", [ds EXCEPT !.buf = SubSeq(ds.buf, 1, l - pos - 1) \o c \o SubSeq(ds.buf, l - pos + 1, l)])
         ELSE R("overlap", ds)

Push(ds, d) ==
  IF ds.frozen /\ ~Bug_PushIgnoresFrozen THEN R("frozen", ds)
  ELSE R("ok", [ds EXCEPT !.buf = @ \o d])

FPut(ds, d) ==
  IF ds.frozen THEN R("frozen", ds)
  ELSE LET l == Len(ds.buf)  p == Len(d) IN
    IF l = 0 \/ l < p THEN R("ok", [ds EXCEPT !.buf = d])
    ELSE R("ok", [ds EXCEPT !.buf = SubSeq(ds.buf, 1, l - p) \o d])

LeadingZeroCount(s) ==
  LET RECURSIVE f(_)
      f(i) == IF i > Len(s) \/ Ch(s, i) # "0" THEN i - 1 ELSE f(i + 1)
  IN f(1)

Shift(ds, p) ==
  IF ds.frozen THEN R("frozen", ds)
  ELSE IF p = 0 THEN R("ok", ds)
  ELSE LET b0 == IF ds.buf = "" THEN "1" ELSE ds.buf
           l  == Len(b0) IN
    IF l <= p THEN R("ok", [ds EXCEPT !.buf = b0 \o Zeros(p)])
    ELSE LET tail == SubSeq(b0, l - p + 1, l)
             pz0  == LeadingZeroCount(tail)
             implicit == pz0 = p
             pz   == IF implicit THEN pz0 - 1 ELSE pz0
             sig  == IF implicit THEN "1" ELSE SubSeq(tail, pz + 1, p)  \* significant part: p - pz digits
             span == 2 * p - pz
         IN IF l >= span /\ AllZeros(SubSeq(b0, l - span + 1, l - p))
            THEN R("ok", [ds EXCEPT !.buf = SubSeq(b0, 1, l - span) \o sig \o Zeros(p)])
            ELSE IF Bug_ShiftNonAtomic /\ implicit
                 THEN R("overlap", [ds EXCEPT !.buf = SubSeq(b0, 1, l - 1) \o "1"])  \* the original wrote first
                 ELSE R("overlap", ds)                                            \* repaired: nothing written

Freeze(ds) == [ds EXCEPT !.frozen = TRUE]
Reset(ds)  == New

(* ---- uniform dispatch used by the state machine and the trace spec ----  *)
(* op = [op |-> name, a |-> digit string, p |-> position, q |-> position]  *)
BoolStr(b) == IF b THEN "true" ELSE "false"
Mutators == {"put", "pda", "shift", "fput", "push"}
Queries  == {"peek", "is_free", "irf", "ipf", "is_ordinal"}
Do(ds, op) ==
  CASE op.op = "put"    -> Put(ds, op.a)
    [] op.op = "pda"    -> PutDigitAt(ds, op.a, op.p)
    [] op.op = "shift"  -> Shift(ds, op.p)
    [] op.op = "fput"   -> FPut(ds, op.a)
    [] op.op = "push"   -> Push(ds, op.a)
    [] op.op = "freeze" -> R("ok", Freeze(ds))
    [] op.op = "reset"  -> R("ok", Reset(ds))
    [] op.op = "peek"   -> R("pk:" \o Peek(ds, op.p), ds)
    [] op.op = "is_free"-> R(BoolStr(IsFree(ds, op.p)), ds)
    [] op.op = "irf"    -> R(BoolStr(IsRangeFree(ds, op.p, op.q)), ds)
    [] op.op = "ipf"    -> R(IF Bug_PositionFreeUnderflow /\ ds.buf = "" THEN "panic" ELSE BoolStr(IsPositionFree(ds, op.p)), ds)
    [] op.op = "is_ordinal" -> R(BoolStr(IsOrdinal(ds)), ds)

=============================================================================
