SPECIFICATION Spec
CONSTANTS
  Bug_ShiftNonAtomic = FALSE
  Bug_PushIgnoresFrozen = FALSE
  Bug_PositionFreeUnderflow = FALSE
INVARIANT Report
POSTCONDITION Accepted
CHECK_DEADLOCK FALSE
