---------------------------- MODULE Val_Streams ----------------------------
(***************************************************************************)
(* Validator of call records for the stream set: evaluates the property    *)
(* selected by IOEnv.PROP on every observation recorded from the real code *)
(* (one record per text, one observation per threshold) and writes the     *)
(* failures as JSON.  Bulk form (DESIGN.md 2.3): all records in one        *)
(* evaluation, no state.                                                   *)
(***************************************************************************)
EXTENDS Props, Scanner, Tokenizer, Json, IOUtils, SequencesExt

Rec == ndJsonDeserialize(IOEnv.TRACE)
Prop == IOEnv.PROP

\* verdict of record r at threshold index k
V(r, k) ==
  LET L == r.q.lang  m == r.multi[k]  thr == r.q.thrs[k]  text == r.q.texts[1] IN
  CASE Prop = "C02" -> VerdictC02(text, m)
    [] Prop = "C06" -> VerdictC06(L, m)
    [] Prop = "C07" -> VerdictC07(L, m, thr)
    [] Prop = "C09" -> IF m.tk # "ok" \/ r.multi[1].tk # "ok" THEN "panic"
                       ELSE VerdictC09(L, m.toks, r.multi[1].occs, m.occs, thr)   \* thrs[1] = "0"

\* ---- drift: the implementation-shaped model M (Scanner over Lang) run on the very tokens the real
\* tokenizer + annotator produced must report the same occurrences (for the languages modelled so far)
ModelToks(m) == [i \in 1..Len(m.toks) |-> [text |-> m.toks[i], lower |-> Lower(m.toks[i]), sep |-> FALSE,
                                            nan |-> \E j \in 1..Len(m.nan) : m.nan[j] = i - 1]]
ModelOccs(L, m, thr) == Batch(L, ModelToks(m), thr, Linking[L])
DriftOn == "DRIFT" \in DOMAIN IOEnv /\ IOEnv.DRIFT \in {"1", "3"}
DriftMod == IF "DRIFT" \in DOMAIN IOEnv /\ IOEnv.DRIFT = "3" THEN 3 ELSE 1      \* "3": every third record (12-threshold runs)
\* what differs first between model and implementation for one observation ("" = nothing):
\* S6 token boundaries, S7 annotation (nan flags), S3-S5 occurrences
DriftKind(L, text, m, thr) ==
  IF m.tk # "ok" THEN ""
  ELSE IF Tokenize(text) # m.toks THEN "tokenizer"
  ELSE IF Annotate(L, [i \in 1..Len(m.toks) |-> Lower(m.toks[i])]) # {m.nan[j] + 1 : j \in 1..Len(m.nan)} THEN "annotator"
  ELSE IF ~ModelOccsAgree(m.occs, ModelOccs(L, m, thr)) THEN "scanner"
  ELSE ""
Drift == IF ~DriftOn THEN {} ELSE
         {x \in {[l |-> l, i |-> Rec[l].i, k |-> k, kind |-> DriftKind(Rec[l].q.lang, Rec[l].q.texts[1], Rec[l].multi[k], Rec[l].q.thrs[k])] :
                    l \in {j \in 1..Len(Rec) : j % DriftMod = 0 /\ Rec[j].q.lang \in Modelled /\ AllKnown(Rec[j].q.texts[1])},
                    k \in 1..Len(Rec[1].q.thrs)} : x.kind # ""}

Bad == {x \in {[l |-> l, i |-> Rec[l].i, k |-> k, verdict |-> V(Rec[l], k)] :
                 l \in 1..Len(Rec), k \in 1..Len(Rec[1].q.thrs)} : x.verdict # ""}
ASSUME JsonSerialize(IOEnv.OUT, [events |-> Len(Rec) * Len(Rec[1].q.thrs), pbad |-> SetToSeq(Bad), drift |-> SetToSeq(Drift), drift_checked |-> IF DriftOn THEN Cardinality({j \in 1..Len(Rec) : j % DriftMod = 0 /\ Rec[j].q.lang \in Modelled}) * Len(Rec[1].q.thrs) ELSE 0])
=============================================================================
