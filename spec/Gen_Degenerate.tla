---------------------------- MODULE Gen_Degenerate ----------------------------
(***************************************************************************)
(* Generator for C03 (totality): degenerate and hostile inputs.            *)
(*  - every concatenation of up to ExLen atoms of a nasty set: empty,      *)
(*    whitespace of several kinds, hyphens, apostrophes, punctuation,      *)
(*    combining marks, non-ASCII digits, CJK, a non-BMP emoji, letters     *)
(*    with irregular case mapping, digits, mixed alphanumerics;            *)
(*  - the same atoms mixed with number words, the conjunction, the decimal *)
(*    separator word and the zero word of each language (seeded);          *)
(*  - very long inputs (a word repeated, a long hyphen compound, a long    *)
(*    digit string).                                                       *)
(* pure = TRUE marks texts without any number word: validating them must   *)
(* report an error.                                                        *)
(***************************************************************************)
EXTENDS TextGen, Json, IOUtils
Params == JsonDeserialize(IOEnv.PARAMS)
Seed == Params.seed
Nasty == <<"", " ", "\t", "\n", "-", "--", "'", "-'", ".", ". ", ",", "…", "é", "٣", "日本", "😀", "ß", "İ", "0", "12", "1st", " ", "　", "a", "x-", "-x", "''", "½", "(", "́", "’", "l’un", "«", "”">>
Req(L, n, text, pure) == [i |-> n, lang |-> L, texts |-> <<text>>, thrs |-> Params.thrs, want |-> Params.want, pure |-> pure, via |-> Params.vias[(n % Len(Params.vias)) + 1]]

ExTextN(j, n) == Concat([d \in 1..n |-> Nasty[((j \div Pow(Len(Nasty), n - d)) % Len(Nasty)) + 1]])
\* words and nasty atoms, mostly separated by blanks so that real multi-word numbers and ordinals occur among the noise
MixSeps == <<" ", " ", " ", " ", "", ", ", ". ", "-", " \n">>
RECURSIVE Mixed(_, _, _)
Mixed(W, x, n) == IF n = 0 THEN ""
   ELSE (IF (x \div 64) % 4 = 0 THEN Pick(Nasty, Lcg(x)) ELSE Pick(W, Lcg(x))) \o (IF n = 1 THEN "" ELSE Pick(MixSeps, Lcg(Lcg(x)))) \o Mixed(W, Lcg(Lcg(Lcg(x))), n - 1)
\* strings handed to the ISO-code lookup: degenerate, multi-byte, code-like prefixes
Codes == Nasty \o <<"aé", "éa", "日本語", "€", "én", "fr😀", "😀", "dé", "i̇t", "nl ", " pt", "EN", "e", "x", "zzz", "ital", "e-n", "en-US", "pt_BR">>
LookupReq(n, code) == [i |-> n, lang |-> code, texts |-> <<"one un uno eins">>, thrs |-> <<"0">>, want |-> Params.want, pure |-> FALSE, via |-> "lookup"]
RECURSIVE Dbl(_, _)
Dbl(s, k) == IF k = 0 THEN s ELSE Dbl(s \o s, k - 1)        \* s repeated 2^k times
Long(L) == LET W == Words[L] IN
  << Dbl(W[3] \o " ", Params.longpow), Dbl(W[3] \o "-", Params.longpow), Dbl("7", Params.longpow), Dbl(" ", Params.longpow),
     Dbl("-", Params.longpow), Dbl(W[1] \o " ", Params.longpow), Dbl(ConjWord[L] \o " ", Params.longpow), Dbl(W[3], Params.longpow - 2),
     Dbl(SepWord[L] \o " " \o W[3] \o " ", Params.longpow - 1) >>

ForLang(L, base) ==
  LET W == Words[L]
      n1 == Pow(Len(Nasty), Params.exlen)
      ex == [j \in 1..n1 |-> Req(L, base + j, ExTextN(j - 1, Params.exlen), TRUE)]
      singles == [j \in 1..Len(Nasty) |-> Req(L, base + n1 + j, Nasty[j], TRUE)]
      rnd == [r \in 1..Params.randn |-> Req(L, base + n1 + Len(Nasty) + r, Mixed(W, Start(Seed, 3 + Len(L), r), 2 + (r % 9)), FALSE)]
      lg == [j \in 1..Len(Long(L)) |-> Req(L, base + n1 + Len(Nasty) + Params.randn + j, Long(L)[j], FALSE)]
  IN singles \o ex \o rnd \o lg
RECURSIVE All(_, _)
All(k, base) == IF k > Len(Params.langs) THEN <<>>
                ELSE LET part == ForLang(Params.langs[k], base) IN part \o All(k + 1, base + Len(part))
Main == All(1, 0)
Lookups == [j \in 1..Len(Codes) |-> LookupReq(Len(Main) + j, Codes[j])]
ASSUME ndJsonSerialize(IOEnv.OUT, Main \o (IF "lookups" \in DOMAIN Params /\ Params.lookups THEN Lookups ELSE <<>>))
=============================================================================
