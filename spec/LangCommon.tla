----------------------------- MODULE LangCommon -----------------------------
(***************************************************************************)
(* Helpers shared by the interpreter models Lang_xx (S2): string splitting *)
(* as the Rust code does it, suffix helpers, and the leftmost-longest      *)
(* pattern split of tokenizer::WordSplitter (S2') at character level.      *)
(***************************************************************************)
EXTENDS DigitString, Chars, TLC

RECURSIVE TrimEndCh(_, _)
TrimEndCh(w, c) == IF Len(w) > 0 /\ Ch(w, Len(w)) = c THEN TrimEndCh(SubSeq(w, 1, Len(w) - 1), c) ELSE w
RECURSIVE TrimEndSet(_, _)
TrimEndSet(w, C) == IF Len(w) > 0 /\ Ch(w, Len(w)) \in C THEN TrimEndSet(SubSeq(w, 1, Len(w) - 1), C) ELSE w
RECURSIVE TrimEndStr(_, _)
TrimEndStr(w, s) == IF s # "" /\ EndsWith(w, s) THEN TrimEndStr(DropEnd(w, Len(s)), s) ELSE w
RECURSIVE TrimStartStr(_, _)
TrimStartStr(w, s) == IF s # "" /\ StartsWith(w, s) THEN TrimStartStr(SubSeq(w, Len(s) + 1, Len(w)), s) ELSE w
HasCh(w, c) == \E i \in 1..Len(w) : Ch(w, i) = c

\* Rust str::split(c): keeps empty pieces
RECURSIVE SplitOn(_, _, _, _)
SplitOn(w, c, i, start) ==
  IF i > Len(w) THEN <<SubSeq(w, start, Len(w))>>
  ELSE IF Ch(w, i) = c THEN <<SubSeq(w, start, i - 1)>> \o SplitOn(w, c, i + 1, i + 1)
  ELSE SplitOn(w, c, i + 1, start)
SplitHyphen(w) == SplitOn(w, "-", 1, 1)

\* ---- WordSplitter: leftmost-longest, non-overlapping pattern matches; the pieces are the
\* ---- matches and the gaps between them (tokenizer.rs WordSplitIterator)
MatchAt(w, i, p) == i + Len(p) - 1 <= Len(w) /\ SubSeq(w, i, i + Len(p) - 1) = p
LongestAt(P, w, i) == LET M == {p \in P : MatchAt(w, i, p)} IN
   IF M = {} THEN "" ELSE CHOOSE p \in M : \A q \in M : Len(q) <= Len(p)
RECURSIVE SplitFrom(_, _, _, _)
SplitFrom(P, w, cursor, i) ==      \* cursor: start of the pending gap; i: scan position
  IF i > Len(w) THEN (IF cursor <= Len(w) THEN <<SubSeq(w, cursor, Len(w))>> ELSE <<>>)
  ELSE LET m == LongestAt(P, w, i) IN
       IF m = "" THEN SplitFrom(P, w, cursor, i + 1)
       ELSE (IF cursor < i THEN <<SubSeq(w, cursor, i - 1)>> ELSE <<>>) \o <<m>> \o SplitFrom(P, w, i + Len(m), i + Len(m))
Split(P, w) == SplitFrom(P, w, 1, 1)
\* is_splittable: the FIRST match does not cover the whole word
RECURSIVE FirstMatch(_, _, _)
FirstMatch(P, w, i) == IF i > Len(w) THEN [at |-> 0, m |-> ""]
                       ELSE LET m == LongestAt(P, w, i) IN IF m = "" THEN FirstMatch(P, w, i + 1) ELSE [at |-> i, m |-> m]
IsSplittable(P, w) == LET f == FirstMatch(P, w, 1) IN f.at # 0 /\ (f.at > 1 \/ f.at + Len(f.m) - 1 < Len(w))

\* bytewise comparison  pk < "20" / "10"  for digit strings (b.peek(2) < b"20")
BytesLess(a, b) ==
  LET RECURSIVE go(_)
      go(i) == IF i > Len(a) THEN i <= Len(b)          \* a is a proper prefix of b (or equal -> FALSE)
               ELSE IF i > Len(b) THEN FALSE
               ELSE IF Ch(a, i) = Ch(b, i) THEN go(i + 1)
               ELSE IndexIn("0123456789", Ch(a, i)) < IndexIn("0123456789", Ch(b, i))
  IN go(1)
OrdMk(s) == "ord:" \o s
FracMk(s) == "frac:" \o s
MarkerText(mk) == IF StartsWith(mk, "ord:") THEN SubSeq(mk, 5, Len(mk)) ELSE IF StartsWith(mk, "frac:") THEN SubSeq(mk, 6, Len(mk)) ELSE ""
IsFractionMk(mk) == StartsWith(mk, "frac:")
=============================================================================
