------------------------------ MODULE MC_Facade ------------------------------
(***************************************************************************)
(* S9 -- the facade as a state machine: a variant is selected (by           *)
(* constructor or by ISO-code lookup), then trait methods are called.      *)
(* Invariant: delegation returns what the concrete interpreter returns;    *)
(* lookup maps each of the seven codes to its own variant and nothing else. *)
(* Mutants: a missing code, two swapped variants, a method not forwarded.  *)
(***************************************************************************)
EXTENDS Naturals, Sequences, TLC
CONSTANTS Bug_LookupMissesPt, Bug_VariantsSwapped, Bug_AnnotateNotForwarded
Codes == {"de", "en", "es", "fr", "it", "nl", "pt"}
Probe == {"", "xx", "12", "english"} \cup Codes
Methods == {"apply", "apply_decimal", "get_morph_marker", "is_decimal_sep", "format_and_value",
            "format_decimal_and_value", "is_linking", "basic_annotate"}
\* the concrete interpreters are abstract here: Concrete(L, m, x) is an uninterpreted result
Concrete(L, m, x) == <<L, m, x>>
Lookup(code) == IF code \in Codes /\ ~(Bug_LookupMissesPt /\ code = "pt") THEN code ELSE "none"
Swap(v) == IF Bug_VariantsSwapped THEN (IF v = "es" THEN "pt" ELSE IF v = "pt" THEN "es" ELSE v) ELSE v
Delegate(v, m, x) == IF Bug_AnnotateNotForwarded /\ m = "basic_annotate" THEN <<"default", m, x>> ELSE Concrete(Swap(v), m, x)
VARIABLES variant, last
Init == variant = "none" /\ last = <<>>
Select == \E c \in Probe : variant' = Lookup(c) /\ last' = <<"lookup", c, Lookup(c)>>
Call == variant # "none" /\ \E m \in Methods, x \in {"a", "b"} : last' = <<"call", variant, m, x, Delegate(variant, m, x)>> /\ UNCHANGED variant
Next == Select \/ Call
Spec == Init /\ [][Next]_<<variant, last>>
DelegationOK == (last # <<>> /\ last[1] = "call") => last[5] = Concrete(last[2], last[3], last[4])
LookupOK == (last # <<>> /\ last[1] = "lookup") => ((last[2] \in Codes) => last[3] = last[2]) /\ ((last[2] \notin Codes) => last[3] = "none")
=============================================================================
