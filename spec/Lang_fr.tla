------------------------------ MODULE Lang_fr ------------------------------
(***************************************************************************)
(* S2 for French (src/lang/fr/mod.rs), string-exact: lemmatizer, hyphen    *)
(* groups through ExecGroup, the blocking flags (UN..SIX after dix, UN     *)
(* after a ten), fput for soixante-dix / quatre-vingt(-dix), markers;      *)
(* S7: the neuf annotator with its scratch builder.                        *)
(* Apply returns the builder AFTER the word also on failure (the code      *)
(* resets flags on a rejected word).                                       *)
(***************************************************************************)
EXTENDS LangCommon

Lemmatize(w) == IF EndsWith(w, "s") /\ w # "trois" THEN TrimEndCh(w, "s") ELSE w
MorphMarker(w) ==
  IF EndsWith(w, "ème") THEN OrdMk("ème") ELSE IF EndsWith(w, "èmes") THEN OrdMk("èmes")
  ELSE IF EndsWith(w, "ier") THEN OrdMk("er") ELSE IF EndsWith(w, "iers") THEN OrdMk("ers")
  ELSE IF EndsWith(w, "ière") THEN OrdMk("ère") ELSE IF EndsWith(w, "ières") THEN OrdMk("ères") ELSE "none"

\* flags: the set of blocked words, encoded as the code's integer
BitOf == ("un" :> 1) @@ ("deux" :> 2) @@ ("trois" :> 4) @@ ("quatre" :> 8) @@ ("cinq" :> 16) @@ ("six" :> 32)
UN == 1
UNSIX == 63
IsBlocked(flags, name) == (flags \div BitOf[name]) % 2 = 1
Small == ("un" :> "1") @@ ("deux" :> "2") @@ ("trois" :> "3") @@ ("quatre" :> "4") @@ ("cinq" :> "5") @@ ("six" :> "6")
SmallOrd == ("unième" :> "un") @@ ("deuxième" :> "deux") @@ ("troisième" :> "trois") @@ ("quatrième" :> "quatre")
         @@ ("cinquième" :> "cinq") @@ ("sixième" :> "six")
Free79 == ("sept" :> "7") @@ ("septième" :> "7") @@ ("huit" :> "8") @@ ("huitième" :> "8") @@ ("neuf" :> "9") @@ ("neuvième" :> "9")
Teens == ("onze" :> "1") @@ ("onzième" :> "1") @@ ("douze" :> "2") @@ ("douzième" :> "2") @@ ("treize" :> "3") @@ ("treizième" :> "3")
      @@ ("quatorze" :> "4") @@ ("quatorzième" :> "4") @@ ("quinze" :> "5") @@ ("quinzième" :> "5") @@ ("seize" :> "6") @@ ("seizième" :> "6")
Tens == ("trente" :> "30") @@ ("trentième" :> "30") @@ ("quarante" :> "40") @@ ("quarantième" :> "40")
     @@ ("cinquante" :> "50") @@ ("cinquantième" :> "50") @@ ("soixante" :> "60") @@ ("soixantième" :> "60")
     @@ ("septante" :> "70") @@ ("septantième" :> "70") @@ ("huitante" :> "80") @@ ("huitantième" :> "80") @@ ("huitantiène" :> "80")
     @@ ("octante" :> "80") @@ ("octantième" :> "80") @@ ("nonante" :> "90") @@ ("nonantième" :> "90")

RECURSIVE Apply(_, _)
ExecGroup(toks) ==
  LET RECURSIVE go(_, _, _)
      go(i, b, inc) == IF i > Len(toks) THEN (IF inc THEN R("incomplete", b) ELSE R("ok", b))
                       ELSE LET r == Apply(toks[i], b) IN
                            IF r.st = "ok" THEN go(i + 1, r.ds, FALSE)
                            ELSE IF r.st = "incomplete" THEN go(i + 1, r.ds, TRUE)
                            ELSE R(r.st, b)
  IN go(1, New, FALSE)

Apply(w, b) ==
  IF HasCh(w, "-") THEN
     LET g == ExecGroup(SplitHyphen(w)) IN
     IF g.st = "incomplete" THEN R("nan", b)         \* repaired: a compound ending on a dangling conjunction is not a number
     ELSE IF g.st # "ok" THEN R(g.st, b)
     ELSE IF DLen(g.ds) > 3 /\ DLen(g.ds) <= 6 /\ ~IsRangeFree(b, 3, 5) THEN R("overlap", b)
     ELSE LET r == Put(b, g.ds.buf) IN
          IF r.st # "ok" THEN R(r.st, b)
          ELSE R("ok", [r.ds EXCEPT !.flags = g.ds.flags,
                                    !.marker = IF IsOrdinal(g.ds) THEN g.ds.marker ELSE @,
                                    !.frozen = IF IsOrdinal(g.ds) THEN TRUE ELSE @])
  ELSE
  LET fl == b.flags
      l  == Lemmatize(w)
      pk == Peek(b, 2)
      X(r, blk) == [st |-> r.st, ds |-> r.ds, block |-> blk]
      res ==
        IF l = "zéro" THEN X(Put(b, "0"), 0)
        ELSE IF l \in DOMAIN Small /\ ~IsBlocked(fl, l) THEN X(Put(b, Small[l]), 0)
        ELSE IF l \in DOMAIN SmallOrd /\ ~IsBlocked(fl, SmallOrd[l]) THEN X(Put(b, Small[SmallOrd[l]]), 0)
        ELSE IF l \in {"premier", "première"} /\ IsEmpty(b) THEN X(Put(b, "1"), 0)
        ELSE IF l \in DOMAIN Free79 THEN X(Put(b, Free79[l]), 0)
        ELSE IF l \in {"dix", "dixième"} THEN X(IF pk = "60" THEN FPut(b, "70") ELSE IF pk = "80" THEN FPut(b, "90") ELSE Put(b, "10"), UNSIX)
        ELSE IF l \in DOMAIN Teens THEN X(IF pk = "60" THEN FPut(b, "7" \o Teens[l]) ELSE IF pk = "80" THEN FPut(b, "9" \o Teens[l])
                                          ELSE Put(b, "1" \o Teens[l]), 0)
        ELSE IF l \in {"vingt", "vingtième"} THEN (IF pk \in {"04", "4"} THEN X(FPut(b, "80"), 0) ELSE X(Put(b, "20"), UN))
        ELSE IF l \in DOMAIN Tens THEN X(Put(b, Tens[l]), UN)
        ELSE IF l \in {"cent", "centième"} THEN
             (IF (Len(pk) = 1 \/ BytesLess(pk, "20")) /\ pk # "1" /\ pk # "01" THEN X(Shift(b, 2), 0) ELSE X(R("overlap", b), 0))
        ELSE IF l \in {"mille", "mil", "millième"} /\ IsRangeFree(b, 3, 5) THEN (IF pk = "1" THEN X(R("overlap", b), 0) ELSE X(Shift(b, 3), 0))
        ELSE IF l \in {"million", "millionième"} /\ IsRangeFree(b, 6, 8) THEN X(Shift(b, 6), 0)
        ELSE IF l \in {"milliard", "milliardième"} THEN X(Shift(b, 9), 0)
        ELSE IF l = "et" /\ DLen(b) >= 2 /\ ~IsBlocked(fl, "deux") THEN X(R("incomplete", b), 0)   \* repaired: not after a dix-form
        ELSE X(R("nan", b), 0)
      mk == MorphMarker(w)
  IN IF res.st = "ok"
     THEN R("ok", [res.ds EXCEPT !.flags = res.block, !.marker = IF mk # "none" THEN mk ELSE @, !.frozen = IF mk # "none" THEN TRUE ELSE @])
     ELSE R(res.st, [res.ds EXCEPT !.flags = 0])

ApplyDecimal(w, b) == Apply(w, b)
IsDecimalSep(w) == w = "virgule"
DecimalMark == ","

\* S7: basic_annotate (repaired: each candidate is probed on a clean scratch builder).
\* toks: lowercase token texts; returns the set of indices flagged nan.
Annotate(toks) ==
  LET tw == SelectSeq([i \in 1..Len(toks) |-> i], LAMBDA i : HasAlnum(toks[i]))      \* true words
      Trig(j) == toks[tw[j]] \in {"un", "le", "du", "l'"}
      cand(j) == /\ toks[tw[j]] = "neuf" /\ j >= 3
                 /\ (Trig(j - 2) \/ (j > 3 /\ Trig(j - 3)))
                 /\ LET prev == toks[tw[j - 1]]
                        next == IF j + 1 <= Len(tw) THEN toks[tw[j + 1]] ELSE ""
                        r1 == Apply(prev, New)
                    IN prev # "numéro" /\ r1.st # "ok" /\ Apply(next, r1.ds).st # "ok"
  IN {tw[j] : j \in {x \in 1..Len(tw) : cand(x)}}

Vocabulary == DOMAIN Small \cup DOMAIN SmallOrd \cup DOMAIN Free79 \cup DOMAIN Teens \cup DOMAIN Tens \cup
              {"zéro", "premier", "première", "dix", "dixième", "vingt", "vingtième", "cent", "centième", "mille", "mil", "millième", "million",
               "millionième", "milliard", "milliardième", "et", "virgule", "cents", "vingts", "millions", "milliards", "deuxièmes", "premiers",
               "premières", "vingt-cinq", "quatre-vingt", "quatre-vingts", "soixante-dix", "quatre-vingt-dix-sept", "vingt-et-un", "vingt-et-unième",
               "trente-deuxième", "dix-sept", "soixante-et-onze", "quatre-vingt-un", "cent-un", "deux-cents", "mille-neuf-cent", "chats", "le"}
=============================================================================
