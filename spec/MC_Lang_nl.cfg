SPECIFICATION Spec
CONSTANTS
  Bug_ShiftNonAtomic = FALSE
  Bug_PushIgnoresFrozen = FALSE
  Bug_PositionFreeUnderflow = FALSE
  L = "nl"
  MaxLen = 3
INVARIANT DigitsInv
CHECK_DEADLOCK FALSE
