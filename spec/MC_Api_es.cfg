SPECIFICATION Spec
CONSTANTS
  Bug_ShiftNonAtomic = FALSE
  Bug_PushIgnoresFrozen = FALSE
  Bug_PositionFreeUnderflow = FALSE
  L = "es"
  Alphabet = {"cero", "uno", "veinte", "cien", "mil", "y", "coma", "segundo", "tercero", "doceavo", "gatos", "son"}
  MaxWords = 3
  Thrs = {"0", "10"}
  StrongSeps = {" gatos negros duermen. "}
INVARIANT CaseOK
INVARIANT WsOK
INVARIANT ContextOK
INVARIANT NoNumberNoChange
CHECK_DEADLOCK FALSE
