---------------------------- MODULE Gen_VocabTexts ----------------------------
(***************************************************************************)
(* Texts over the FULL vocabulary of an interpreter model (every literal   *)
(* of every match arm plus inflected and compound forms, Lang!VocabOf):    *)
(* every single word, every ordered pair "w1 w2" (or a seeded sample of    *)
(* the pairs), seeded texts of 3..4 words.  This is the text-level         *)
(* counterpart of Gen_Apply: whatever a rejected word leaves behind in the *)
(* builder becomes visible in the occurrence that the scanner then closes  *)
(* (C06 well-formedness, C07 span re-validation).                          *)
(***************************************************************************)
EXTENDS TextGen, Json, IOUtils, SequencesExt, Lang
Params == JsonDeserialize(IOEnv.PARAMS)
Req(L, n, text) == [i |-> n, lang |-> L, texts |-> <<text>>, thrs |-> Params.thrs, want |-> Params.want]
ForLang(L, base) ==
  LET W == SetToSeq(VocabOf(L))  n == Len(W)
      singles == [j \in 1..n |-> Req(L, base + j, W[j])]
      pairs == IF Params.allpairs
               THEN [j \in 1..(n * n) |-> Req(L, base + n + j, W[((j - 1) \div n) + 1] \o " " \o W[((j - 1) % n) + 1])]
               ELSE [r \in 1..Params.pairs |-> LET x == Start(Params.seed, 7 + n, r) IN Req(L, base + n + r, Pick(W, x) \o " " \o Pick(W, Lcg(x)))]
      rnd == [r \in 1..Params.randn |-> Req(L, base + n + Len(pairs) + r,
                 RandText(W, <<" ", " ", " ", ", ", "-">>, Start(Params.seed, 29 + n, r), 3 + (r % 2)))]
      \* the same words in capitals (scanner and validator must fold case the same way)
      caps == [j \in 1..n |-> Req(L, base + n + Len(pairs) + Params.randn + j, Upper(W[j]))]
  IN singles \o pairs \o rnd \o caps
RECURSIVE All(_, _)
All(k, base) == IF k > Len(Params.langs) THEN <<>>
                ELSE LET part == ForLang(Params.langs[k], base) IN part \o All(k + 1, base + Len(part))
ASSUME ndJsonSerialize(IOEnv.OUT, All(1, Params.base))
=============================================================================
