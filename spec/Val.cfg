CONSTANTS
  Bug_ShiftNonAtomic = FALSE
  Bug_PushIgnoresFrozen = FALSE
  Bug_PositionFreeUnderflow = FALSE
