----------------------------- MODULE SpellerOrd -----------------------------
(***************************************************************************)
(* P-side oracle for C04: the spelling of the n-th ordinal in the seven    *)
(* languages, with the gender / number inflections the language has, and   *)
(* the ordinal marker the digit form must carry.                           *)
(*   Ordinal(L, gs, v, infl) : the phrase       OrdMarker(L, gs, infl)     *)
(*   Infls(L) : inflections; OrdVariants(L) : orthographic variants        *)
(*   InOrdDomain(L, gs) : supported range (10^6; es/pt 1999)               *)
(***************************************************************************)
EXTENDS Speller

N12(gs) == gs[1] + 1000 * gs[2]          \* value below 10^6 as an integer (fits 32 bits)
OnlyLow(gs) == gs[3] = 0 /\ gs[4] = 0
IsMillion(gs) == gs = <<0, 0, 1, 0>>

(* ---- English ---- *)
ENO == ("one" :> "first") @@ ("two" :> "second") @@ ("three" :> "third") @@ ("five" :> "fifth") @@ ("eight" :> "eighth")
    @@ ("nine" :> "ninth") @@ ("twelve" :> "twelfth")
EnOrdinalize(w) == IF w \in DOMAIN ENO THEN ENO[w] ELSE IF EndsWith(w, "y") THEN DropEnd(w, 1) \o "ieth" ELSE w \o "th"
EnOrd(gs, v) == LET s == EnCard(gs, v) IN HeadPart(s) \o EnOrdinalize(LastWord(s))
EnMark(gs) == LET r == gs[1] % 100  u == gs[1] % 10 IN
   IF r \in {11, 12, 13} THEN "th" ELSE IF u = 1 THEN "st" ELSE IF u = 2 THEN "nd" ELSE IF u = 3 THEN "rd" ELSE "th"

(* ---- French ---- *)
FrOrdinalize(w0) ==
  LET w == IF w0 \in {"cents", "vingts", "millions", "milliards"} THEN DropEnd(w0, 1) ELSE w0 IN
  IF w = "un" THEN "unième" ELSE IF w = "cinq" THEN "cinquième" ELSE IF w = "neuf" THEN "neuvième"
  ELSE IF EndsWith(w, "e") THEN DropEnd(w, 1) \o "ième" ELSE w \o "ième"
FrOrd(gs, v, infl) ==     \* infl in {"m", "f", "mp", "fp"}
  LET fem == infl \in {"f", "fp"}  pl == infl \in {"mp", "fp"}
      w == IF gs = <<1, 0, 0, 0>> THEN (IF fem THEN "première" ELSE "premier")
           ELSE LET s == FrCard(gs, v) IN HeadPart(s) \o FrOrdinalize(LastWord(s))
  IN w \o (IF pl THEN "s" ELSE "")
FrMark(gs, infl) == (IF gs = <<1, 0, 0, 0>> THEN (IF infl \in {"f", "fp"} THEN "ère" ELSE "er") ELSE "ème")
                    \o (IF infl \in {"mp", "fp"} THEN "s" ELSE "")

(* ---- German (n < 10^6, and 10^6) ---- *)
DEO == (1 :> "erste") @@ (3 :> "dritte") @@ (7 :> "siebte") @@ (8 :> "achte")
DeO99(r) == IF r \in DOMAIN DEO THEN DEO[r]
            ELSE IF r < 20 THEN DE1[r] \o "te"
            ELSE (IF r % 10 # 0 THEN DE1[r % 10] \o "und" ELSE "") \o DE10[r \div 10] \o "ste"
DeOrdE(gs) ==
  IF IsMillion(gs) THEN "millionste" ELSE
  LET T == gs[2]  U == gs[1]  h == U \div 100  r == U % 100
      t == IF T > 0 THEN Concat(De999M(T, FALSE, TRUE)) \o "tausend" ELSE ""
  IN IF U = 0 THEN t \o "ste"
     ELSE t \o (IF h > 0 THEN DE1[h] \o "hundert" ELSE "") \o (IF r = 0 THEN "ste" ELSE DeO99(r))
DeOrd(gs, infl) == LET s == DeOrdE(gs) IN IF infl = "e" THEN s ELSE DropEnd(s, 1) \o infl

(* ---- Dutch (n < 10^6) ---- *)
NLO == <<"eerste", "tweede", "derde", "vierde", "vijfde", "zesde", "zevende", "achtste", "negende", "tiende", "elfde", "twaalfde",
         "dertiende", "veertiende", "vijftiende", "zestiende", "zeventiende", "achttiende", "negentiende">>
NlOrd(gs) ==
  IF IsMillion(gs) THEN "miljoenste" ELSE
  LET T == gs[2]  U == gs[1]  h == U \div 100  r == U % 100
      t == IF T > 0 THEN (IF T > 1 THEN Concat(Nl999M(T, FALSE)) ELSE "") \o "duizend" ELSE ""
      hh == IF h > 0 THEN (IF h > 1 THEN NL1[h] ELSE "") \o "honderd" ELSE ""
  IN IF U = 0 THEN t \o "ste"
     ELSE IF r = 0 THEN t \o hh \o "ste"
     ELSE IF r < 20 THEN t \o hh \o NLO[r]
     ELSE t \o hh \o (IF r % 10 # 0 THEN NL1[r % 10] \o (IF EndsWith(NL1[r % 10], "e") THEN "ën" ELSE "en") ELSE "") \o NL10[r \div 10] \o "ste"

(* ---- Italian (n < 10^6, and 10^6) ---- *)
ITO == <<"primo", "secondo", "terzo", "quarto", "quinto", "sesto", "settimo", "ottavo", "nono", "decimo">>
ItOrdO(gs) ==
  IF IsMillion(gs) THEN "milionesimo"
  ELSE IF gs[2] = 0 /\ gs[1] <= 10 THEN ITO[gs[1]]
  ELSE LET s0 == MapCh(ItCard(gs, "compound"), " ", "")
           s == IF EndsWith(s0, "tré") THEN DropEnd(s0, 3) \o "tre" ELSE s0
       IN IF EndsWith(s, "dieci") THEN DropEnd(s, 5) \o "decimo"
          ELSE IF EndsWith(s, "tre") \/ EndsWith(s, "sei") THEN s \o "esimo"
          ELSE IF EndsWith(s, "mila") THEN DropEnd(s, 4) \o "millesimo"
          ELSE DropEnd(s, 1) \o "esimo"
ItOrd(gs, end) == DropEnd(ItOrdO(gs), 1) \o end

(* ---- Spanish (1..1999) ---- *)
ESU == <<"primero", "segundo", "tercero", "cuarto", "quinto", "sexto", "séptimo", "octavo", "noveno">>
EST == <<"décimo", "vigésimo", "trigésimo", "cuadragésimo", "quincuagésimo", "sexagésimo", "septuagésimo", "octogésimo", "nonagésimo">>
ESH == <<"centésimo", "ducentésimo", "tricentésimo", "cuadringentésimo", "quingentésimo", "sexcentésimo", "septingentésimo",
         "octingentésimo", "noningentésimo">>
Inflect(w, end) == DropEnd(w, 1) \o end           \* end in o, a, os, as
EsOrdWords(gs, teen) ==      \* teen in sep | lat | fused
  LET th == gs[2]  h == gs[1] \div 100  r2 == gs[1] % 100  t == r2 \div 10  u == r2 % 10 IN
  (IF th = 1 THEN <<"milésimo">> ELSE <<>>) \o (IF h > 0 THEN <<ESH[h]>> ELSE <<>>)
  \o (IF r2 = 11 /\ teen = "lat" THEN <<"undécimo">>
      ELSE IF r2 = 12 /\ teen = "lat" THEN <<"duodécimo">>
      ELSE IF r2 = 18 /\ teen = "fused" THEN <<"decimoctavo">>
      ELSE IF r2 >= 11 /\ r2 <= 19 /\ teen = "fused" THEN <<"decimo" \o ESU[u]>>
      ELSE (IF t > 0 THEN <<EST[t]>> ELSE <<>>) \o (IF u > 0 THEN <<ESU[u]>> ELSE <<>>))
EsOrd(gs, teen, end) == LET ws == EsOrdWords(gs, teen) IN JoinW([i \in 1..Len(ws) |-> Inflect(ws[i], end)])
RomMark(end) == CASE end = "o" -> "º" [] end = "a" -> "ª" [] end = "os" -> "ᵒˢ" [] end = "as" -> "ᵃˢ"

(* ---- Portuguese (1..1999) ---- *)
PTU == <<"primeiro", "segundo", "terceiro", "quarto", "quinto", "sexto", "sétimo", "oitavo", "nono">>
PTT == <<"décimo", "vigésimo", "trigésimo", "quadragésimo", "quinquagésimo", "sexagésimo", "septuagésimo", "octogésimo", "nonagésimo">>
PTH == <<"centésimo", "ducentésimo", "trecentésimo", "quadringentésimo", "quingentésimo", "sexcentésimo", "septingentésimo",
         "octingentésimo", "nongentésimo">>
PtOrd(gs, end) ==
  LET th == gs[2]  h == gs[1] \div 100  r2 == gs[1] % 100  t == r2 \div 10  u == r2 % 10
      ws == (IF th = 1 THEN <<"milésimo">> ELSE <<>>) \o (IF h > 0 THEN <<PTH[h]>> ELSE <<>>)
            \o (IF t > 0 THEN <<PTT[t]>> ELSE <<>>) \o (IF u > 0 THEN <<PTU[u]>> ELSE <<>>)
  IN JoinW([i \in 1..Len(ws) |-> Inflect(ws[i], end)])

(* ---- interface ---- *)
Infls(L) == CASE L = "en" -> <<"-">> [] L = "fr" -> <<"m", "f", "mp", "fp">> [] L = "de" -> <<"e", "er", "en", "es", "em">>
              [] L = "nl" -> <<"-">> [] L = "it" -> <<"o", "a", "i", "e">> [] L \in {"es", "pt"} -> <<"o", "a", "os", "as">>
OrdVariants(L) == CASE L = "en" -> <<"us-hyphen", "us-space", "uk-and">>
                    [] L = "fr" -> <<"trad", "spaces", "trad+regional">>
                    [] L = "es" -> <<"sep", "lat", "fused">>
                    [] OTHER -> <<"std">>
InOrdDomain(L, gs) ==
  /\ ~IsZero(gs)
  /\ IF L \in {"es", "pt"} THEN OnlyLow(gs) /\ gs[2] <= 1
     ELSE OnlyLow(gs) \/ IsMillion(gs)
Ordinal(L, gs, v, infl) ==
  CASE L = "en" -> EnOrd(gs, v) [] L = "fr" -> FrOrd(gs, v, infl) [] L = "de" -> DeOrd(gs, infl) [] L = "nl" -> NlOrd(gs)
    [] L = "it" -> ItOrd(gs, infl) [] L = "es" -> EsOrd(gs, v, infl) [] L = "pt" -> PtOrd(gs, infl)
OrdMarker(L, gs, infl) ==
  CASE L = "en" -> EnMark(gs) [] L = "fr" -> FrMark(gs, infl) [] L = "de" -> "." [] L = "nl" -> "e"
    [] L = "it" -> (IF infl \in {"o", "i"} THEN "º" ELSE "ª") [] L \in {"es", "pt"} -> RomMark(infl)
=============================================================================
