------------------------------ MODULE Gen_Scan ------------------------------
(***************************************************************************)
(* Generator of token streams with hint flags (C15, token-wise C02):       *)
(*  - every stream of ExLen word tokens over a reduced alphabet, with and  *)
(*    without blank tokens between the words, and EVERY placement of the   *)
(*    hints none / separated / not-a-number-part on the word tokens;       *)
(*  - RandN seeded streams of up to RandLen tokens over the full alphabet   *)
(*    plus punctuation and blank tokens, flags drawn at random.            *)
(* A separated token also carries sp = the index of its predecessor (the   *)
(* previous significant token): the harness honours the hint only when the *)
(* scanner hands it exactly that predecessor.  toks2 is the twin stream in *)
(* which a comma token is inserted before every separated token.           *)
(***************************************************************************)
EXTENDS TextGen, Json, IOUtils

Params == JsonDeserialize(IOEnv.PARAMS)
Seed == Params.seed
Thrs == Params.thrs
Want == Params.want

IsGlueText(t) == t = "-" \/ IsWsOnly(t)
\* index (1-based) of the previous significant token before position i in texts, or 0
RECURSIVE PrevSig(_, _)
PrevSig(texts, i) == IF i <= 1 THEN 0 ELSE IF ~IsGlueText(texts[i - 1]) THEN i - 1 ELSE PrevSig(texts, i - 1)

\* hint codes: 0 none, 1 separated, 2 not-a-number-part
MkToks(texts, hints) ==
  [i \in 1..Len(texts) |->
     IF hints[i] = 1 /\ PrevSig(texts, i) > 0
       THEN [t |-> texts[i], sep |-> TRUE, nan |-> FALSE, sp |-> PrevSig(texts, i) - 1]
       ELSE [t |-> texts[i], sep |-> FALSE, nan |-> hints[i] = 2, sp |-> 0]]
RECURSIVE Twin(_)
Twin(toks) == IF toks = <<>> THEN <<>>
              ELSE (IF Head(toks).sep THEN <<[t |-> ",", sep |-> FALSE, nan |-> FALSE, sp |-> 0]>> ELSE <<>>)
                   \o <<[Head(toks) EXCEPT !.sep = FALSE]>> \o Twin(Tail(toks))
Req(L, n, texts, hints) ==
  LET toks == MkToks(texts, hints) IN
  [i |-> n, lang |-> L, thr |-> Thrs[(n % Len(Thrs)) + 1], toks |-> toks, toks2 |-> Twin(toks), want |-> Want]

\* exhaustive part: j enumerates words^n x hints^n x {blanks, no blanks}
ExReq(L, W, n, base, j) ==
  LET nw == Len(W)
      wi(d) == ((j \div Pow(nw, n - d)) % nw) + 1
      r1 == j \div Pow(nw, n)
      hi(d) == (r1 \div Pow(3, d - 1)) % 3
      blanks == (r1 \div Pow(3, n)) % 2 = 1
      texts == IF blanks THEN [k \in 1..(2 * n - 1) |-> IF k % 2 = 1 THEN W[wi((k + 1) \div 2)] ELSE " "]
               ELSE [k \in 1..n |-> W[wi(k)]]
      hints == IF blanks THEN [k \in 1..(2 * n - 1) |-> IF k % 2 = 1 THEN hi((k + 1) \div 2) ELSE 0]
               ELSE [k \in 1..n |-> hi(k)]
  IN Req(L, base + j + 1, texts, hints)
ExCountScan(W, n) == Pow(Len(W), n) * Pow(3, n) * 2

RECURSIVE RandToks(_, _, _, _)
RandToks(W, G, x, n) ==   \* texts: words and glue/punctuation tokens mixed
  IF n = 0 THEN <<>>
  ELSE (IF (x \div 64) % 3 = 0 THEN <<Pick(G, Lcg(x))>> ELSE <<Pick(W, Lcg(x))>>) \o RandToks(W, G, Lcg(Lcg(x)), n - 1)
RECURSIVE RandHints(_, _, _)
RandHints(texts, x, i) ==
  IF i > Len(texts) THEN <<>>
  ELSE <<IF IsGlueText(texts[i]) THEN 0 ELSE (IF (x \div 32) % 4 = 0 THEN 1 + ((x \div 128) % 2) ELSE 0)>> \o RandHints(texts, Lcg(x), i + 1)
GlueToks == <<" ", ", ", ".", "-", " ", ";", "!", "  ", "", "\t">>

ForLang(L, base) ==
  LET W == Words[L]
      WS == SubSeqIdx(W, Params.exwords[L])
      n2 == ExCountScan(WS, Params.exlen)
      ex == [j \in 1..n2 |-> ExReq(L, WS, Params.exlen, base, j - 1)]
      rnd == [r \in 1..Params.randn |->
                LET x == Start(Seed, Len(L) + 3 * Len(W), r)
                    texts == RandToks(W, GlueToks, x, Params.randlen - (r % 4))
                IN Req(L, base + n2 + r, texts, RandHints(texts, Lcg(x + 7), 1))]
  IN ex \o rnd

RECURSIVE All(_, _)
All(k, base) == IF k > Len(Params.langs) THEN <<>>
                ELSE LET part == ForLang(Params.langs[k], base) IN part \o All(k + 1, base + Len(part))
ASSUME ndJsonSerialize(IOEnv.OUT, All(1, 0))
=============================================================================
