------------------------------- MODULE Vocab -------------------------------
(***************************************************************************)
(* Per-language data of the P layer: stream alphabets A_L (representative   *)
(* token sets used to build token streams and texts), the linking-word      *)
(* sets (vocabulary.rs INSIGNIFICANT -- part of the documented behaviour:   *)
(* "linking words do not isolate numbers"), decimal separator words,        *)
(* decimal marks and ordinal markers.                                       *)
(***************************************************************************)
EXTENDS Naturals, Sequences

Langs == <<"de", "en", "es", "fr", "it", "nl", "pt">>
LangSet == {"de", "en", "es", "fr", "it", "nl", "pt"}

Linking ==
  [ de |-> {"aber", "ah", "äh", "ähm", "also", "gut", "auch", "denn", "doch", "dort", "eben", "eh", "halt", "ja", "mal", "sehen", "naja", "nun", "ok", "schon", "so", "genau", "und", "noch"},
    en |-> {"and", "ha", "ah", "hu", "hum", "minus", "more", "ok", "plus", "so", "that's", "then", "uh", "well", "yeah", "yes", "is"},
    es |-> {"pues", "y", "digo", "o", "sea", "entonces", "así", "que", "bueno", "es", "eso", "en", "fin", "luego", "mas", "menos", "pero", "vale", "eh", "ah", "oye", "ya", "hum", "ok", "sí", "no", "con", "son"},
    fr |-> {"alors", "bien", "c'est", "encore", "ensuite", "et", "euh", "heu", "ha", "ah", "hu", "hum", "moins", "ok", "oui", "plus", "puis", "voilà"},
    it |-> {"e", "ehm", "più", "poi", "ancora", "meno", "è", "ben"},
    nl |-> {"ja", "dus", "plus", "uh", "dan", "min", "dat", "is"},
    pt |-> {"eh", "então", "bem", "isso", "outra vez", "e", "uh", "ha", "ah", "hu", "um", "menos", "ok", "sim", "mais", "aí está",
            "digo", "ou", "seja", "aquele", "é", "aquilo", "em", "fim", "mais tarde", "mas", "ei", "agora", "hum", "não", "com", "são", "novamente"} ]

SepWord == [de |-> "komma", en |-> "point", es |-> "coma", fr |-> "virgule", it |-> "virgola", nl |-> "komma", pt |-> "vírgula"]
DecMark == [de |-> ",", en |-> ".", es |-> ",", fr |-> ",", it |-> ",", nl |-> ",", pt |-> ","]
ZeroWord == [de |-> "null", en |-> "zero", es |-> "cero", fr |-> "zéro", it |-> "zero", nl |-> "nul", pt |-> "zero"]
ConjWord == [de |-> "und", en |-> "and", es |-> "y", fr |-> "et", it |-> "e", nl |-> "en", pt |-> "e"]

\* ordinal markers that may end an occurrence text (the numeral grammar of C06)
Markers ==
  [ de |-> {"."},
    en |-> {"st", "nd", "rd", "th", "ths", "rds"},
    es |-> {"º", "ª", "ᵒˢ", "ᵃˢ", ".ᵉʳ"},
    fr |-> {"er", "ers", "ère", "ères", "ème", "èmes"},
    it |-> {"º", "ª"},
    nl |-> {"e"},
    pt |-> {"º", "ª", "ᵒˢ", "ᵃˢ"} ]

\* ---- stream alphabets ---------------------------------------------------
\* number words (cardinal pieces, scale words, a compound), ordinals, conjunction, separator word,
\* linking words, ordinary words, ambiguous words with their triggers
Words ==
  [ en |-> <<"zero", "o", "one", "two", "five", "nine", "ten", "twelve", "fifteen", "twenty", "forty", "ninety",
             "hundred", "thousand", "million", "billion", "and", "point", "first", "second", "third", "fifth",
             "twentieth", "hundredth", "twenty-five", "thirty-first", "plus", "is", "uh", "apples", "the", "cars", "seconds", "a", "an", "millions", "oh">>,
    fr |-> <<"zéro", "un", "deux", "six", "sept", "neuf", "dix", "onze", "seize", "vingt", "trente", "soixante",
             "quatre-vingt", "quatre-vingts", "cent", "cents", "mille", "million", "milliard", "et", "virgule",
             "premier", "première", "deuxième", "cinquième", "vingtième", "vingt-cinq", "soixante-dix",
             "quatre-vingt-dix-sept", "plus", "alors", "voilà", "chats", "le", "du", "numéro", "maison", "millions", "milliards", "une">>,
    es |-> <<"cero", "un", "uno", "una", "dos", "tres", "siete", "nueve", "diez", "once", "quince", "dieciséis",
             "veinte", "veintiuno", "veintidós", "treinta", "cuarenta", "cien", "ciento", "doscientos", "quinientos",
             "mil", "millón", "millones", "y", "coma", "primero", "primera", "segundo", "tercer", "décimo", "vigésimo",
             "doceavo", "mas", "menos", "son", "gatos", "el", "casa", "billón", "billones", "mil", "unas">>,
    pt |-> <<"zero", "um", "dois", "duas", "três", "sete", "nove", "dez", "onze", "quinze", "dezasseis", "dezesseis",
             "vinte", "trinta", "cem", "cento", "duzentos", "mil", "milhão", "milhões", "e", "vírgula",
             "primeiro", "segunda", "terceiro", "décimo", "vigésimo", "mais", "menos", "é", "gatos", "o", "casa", "bilhão", "bilhões", "uma">>,
    it |-> <<"zero", "uno", "un", "una", "due", "tre", "sette", "otto", "nove", "dieci", "undici", "sedici",
             "venti", "ventuno", "trenta", "trentotto", "cento", "mille", "mila", "duemila", "milione", "milioni",
             "miliardo", "e", "virgola", "primo", "seconda", "terzo", "decimo", "ventesimo", "ventitré",
             "centoventi", "duecento", "più", "meno", "poi", "gatti", "il", "casa", "miliardi", "bilione", "bilioni">>,
    de |-> <<"null", "ein", "eins", "zwei", "drei", "sieben", "neun", "zehn", "elf", "zwölf", "sechzehn",
             "zwanzig", "dreißig", "hundert", "tausend", "million", "millionen", "milliarde", "und", "komma",
             "erste", "zweite", "dritte", "siebte", "zwanzigste", "einundzwanzig", "zweihundert", "dreiundfünfzig",
             "also", "ja", "katzen", "der", "haus", "billion", "billionen", "milliarden", "eine">>,
    nl |-> <<"nul", "een", "één", "twee", "drie", "zeven", "negen", "tien", "elf", "twaalf", "zestien",
             "twintig", "dertig", "honderd", "duizend", "miljoen", "miljard", "en", "komma",
             "eerste", "tweede", "derde", "twintigste", "eenentwintig", "tweehonderd", "drieënvijftig",
             "plus", "is", "dan", "katten", "de", "huis", "biljoen", "miljoenen", "miljarden">> ]

\* core alphabet for exhaustive short texts (C09): two small numbers, an ambiguous / zero word, a linking word, an ordinary
\* word, a small ordinal, a number that is never "small", the conjunction, a token made of a digit
CoreWords ==
  [ en |-> <<"one", "two", "o", "uh", "apples", "first", "twenty", "and", "5">>,
    fr |-> <<"un", "deux", "neuf", "alors", "chats", "premier", "vingt", "et", "5">>,
    es |-> <<"uno", "dos", "cero", "mas", "gatos", "primero", "veinte", "y", "5">>,
    pt |-> <<"um", "dois", "zero", "mais", "gatos", "primeiro", "vinte", "e", "5">>,
    it |-> <<"uno", "due", "zero", "poi", "gatti", "primo", "venti", "e", "5">>,
    de |-> <<"eins", "zwei", "null", "also", "katzen", "erste", "zwanzig", "und", "5">>,
    nl |-> <<"een", "twee", "nul", "dan", "katten", "eerste", "twintig", "en", "5">> ]

\* separators between words of a generated text
Seps == <<" ", ", ", ". ", "-", "; ", " - ", "  ", "! ", "- ", " -", "' ", "-, ", ",", ":">>
\* a strong separator (C10): >= 3 ordinary (non-number, non-linking) words ending a sentence
StrongSep ==
  [ en |-> <<" green cars arrived. ", " went home today. ">>,
    fr |-> <<" chats noirs dorment. ", " maison rouge fermée. ">>,
    es |-> <<" gatos negros duermen. ", " casa roja cerrada. ">>,
    pt |-> <<" gatos pretos dormem. ", " casa vermelha fechada. ">>,
    it |-> <<" gatti neri dormono. ", " casa rossa chiusa. ">>,
    de |-> <<" katzen schlafen heute. ", " haus bleibt geschlossen. ">>,
    nl |-> <<" katten slapen vandaag. ", " huis blijft gesloten. ">> ]

\* phrases around the ambiguous words (fr neuf with its articles, en o), used as parts of context cases (C10)
AmbigParts ==
  [ fr |-> <<"le vingt neuf", "du cent neuf", "un logement neuf", "le numéro neuf", "un chat neuf", "le neuf", "du neuf", "un neuf deux",
             "le vingt neuf alors voilà bien", "l'appartement neuf", "du pain neuf dix", "le mille neuf cent",
             "la première", "le premier", "vingt-et-unième", "vingt-et-unièmes", "neuf cents",
             "le logement. neuf chats", "un chat. neuf chats dorment", "du pain. neuf">>,
    en |-> <<"o one", "the o", "o", "twenty o", "o apples", "one o two", "o eight hundred", "twenty-first", "twenty-firsts", "the fifth", "two fifths", "a hundred", "an hour">>,
    es |-> <<"uno dos", "vigésimo primero", "vigésima primera", "vigésimos primeros", "centésimo", "centésima", "un doceavo", "dos doceavos">>,
    pt |-> <<"um dois", "vigésimo primeiro", "vigésima primeira", "vigésimos primeiros", "centésimo", "centésima">>,
    it |-> <<"uno due", "il ventitreesimo giorno", "la ventitreesima volta", "centoventesimo", "centoventesima", "duecentesimi", "duecentesime",
             "trentaduesimo", "trentaduesima">>,
    de |-> <<"eins zwei", "einundzwanzigste", "einundzwanzigster", "einundzwanzigsten", "zweihundertste", "zweihundertster">>,
    nl |-> <<"een twee", "eenentwintigste", "tweehonderdste", "drieënvijftigste">> ]

\* spelled numbers beyond 2^53 (the digits must be kept exactly, the value is the float reading of the text)
BigParts ==
  [ en |-> <<"ninety million billion eighteen", "nine hundred thousand billion and one">>,
    fr |-> <<"quatre-vingt-dix millions milliards dix-huit">>,
    es |-> <<"noventa mil millones">>, pt |-> <<"noventa mil milhões">>,
    it |-> <<"novantamila bilioni e diciotto", "novantamila bilioni diciottesimo">>,
    de |-> <<"neunzigtausend billion achtzehn", "neunzigtausend billion achtzehnte">>,
    nl |-> <<"negentigduizend biljoen achttien">> ]
=============================================================================
