SPECIFICATION Spec
CONSTANTS
  Alphabet = {"a", "é", "7", "-", "'", " ", ",", "."}
  MaxLen = 6
INVARIANT Lossless
INVARIANT NonEmpty
INVARIANT WellClassed
INVARIANT NoTwoSeparators
INVARIANT SameAsOperator
CHECK_DEADLOCK FALSE
