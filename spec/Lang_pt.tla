------------------------------ MODULE Lang_pt ------------------------------
(***************************************************************************)
(* S2 for Portuguese (src/lang/pt/mod.rs), string-exact: pseudo-lemmatizer *)
(* (final a/as/o/os stripped), marker agreement, the chaining restrictions *)
(* kept in flags (CONJUNCTION after "e", ONLY_MULTIPLIERS after "cem").    *)
(***************************************************************************)
EXTENDS LangCommon

Lemmatize(w) ==
  IF EndsWith(w, "a") THEN TrimEndCh(w, "a")
  ELSE IF EndsWith(w, "as") /\ w # "duas" THEN TrimEndStr(w, "as")
  ELSE IF EndsWith(w, "o") /\ w # "zero" THEN TrimEndCh(w, "o")
  ELSE IF EndsWith(w, "os") THEN TrimEndStr(w, "os")
  ELSE w

MorphMarker(w) ==
  LET lemma == Lemmatize(w)
      prob == IF EndsWith(w, "a") THEN OrdMk("ª") ELSE IF EndsWith(w, "as") THEN OrdMk("ᵃˢ")
              ELSE IF EndsWith(w, "o") THEN OrdMk("º") ELSE IF EndsWith(w, "os") THEN OrdMk("ᵒˢ") ELSE "none"
  IN IF prob = "none" THEN "none"
     ELSE IF lemma \in {"primeir", "segund", "terceir", "quart", "quint", "sext", "sétim", "oitav", "non"} \/ EndsWith(lemma, "im") THEN prob
     ELSE "none"

CONJ == 1
ONLYMULT == 2
\* units: need peek(2) # "10" and not smaller_blocked
Units == ("um" :> "1") @@ ("dois" :> "2") @@ ("duas" :> "2") @@ ("três" :> "3") @@ ("tres" :> "3") @@ ("quatr" :> "4") @@ ("cinc" :> "5")
      @@ ("seis" :> "6") @@ ("sete" :> "7") @@ ("oit" :> "8") @@ ("nove" :> "9")
\* ordinal units: always accepted
OrdUnits == ("primeir" :> "1") @@ ("segund" :> "2") @@ ("terceir" :> "3") @@ ("quart" :> "4") @@ ("quint" :> "5") @@ ("sext" :> "6")
         @@ ("sétim" :> "7") @@ ("oitav" :> "8")
\* accepted unless smaller_blocked
Smaller == ("non" :> "9") @@ ("dez" :> "10") @@ ("décim" :> "10") @@ ("onze" :> "11") @@ ("doze" :> "12") @@ ("treze" :> "13")
        @@ ("catorze" :> "14") @@ ("quatorze" :> "14") @@ ("quinze" :> "15") @@ ("dezasseis" :> "16") @@ ("dezesseis" :> "16")
        @@ ("dezassete" :> "17") @@ ("dezessete" :> "17") @@ ("dezoit" :> "18") @@ ("dezanove" :> "19") @@ ("dezenove" :> "19")
        @@ ("vinte" :> "20") @@ ("vigésim" :> "20") @@ ("trint" :> "30") @@ ("trigésim" :> "30") @@ ("quarent" :> "40") @@ ("quadragésim" :> "40")
        @@ ("cinquent" :> "50") @@ ("cinqüent" :> "50") @@ ("quinquagésim" :> "50") @@ ("qüinquagésim" :> "50")
        @@ ("sessent" :> "60") @@ ("sexagésim" :> "60") @@ ("setent" :> "70") @@ ("septuagésim" :> "70") @@ ("setuagésim" :> "70")
        @@ ("oitent" :> "80") @@ ("octogésim" :> "80") @@ ("novent" :> "90") @@ ("nonagésim" :> "90")
\* accepted unless only_multipliers
Hundreds == ("cent" :> "100") @@ ("centésim" :> "100") @@ ("duzent" :> "200") @@ ("ducentésim" :> "200") @@ ("trezent" :> "300") @@ ("trecentésim" :> "300")
         @@ ("quatrocent" :> "400") @@ ("quadringentésim" :> "400") @@ ("quinhent" :> "500") @@ ("quingentésim" :> "500") @@ ("qüingentésim" :> "500")
         @@ ("seiscent" :> "600") @@ ("sexcentésim" :> "600") @@ ("seiscentésim" :> "600") @@ ("setecent" :> "700") @@ ("septingentésim" :> "700")
         @@ ("oitocent" :> "800") @@ ("octingentésim" :> "800") @@ ("novecent" :> "900") @@ ("noningentésim" :> "900") @@ ("nongentésim" :> "900")

Apply(w, b) ==
  LET mk == MorphMarker(w) IN
  IF ~IsEmpty(b) /\ mk # b.marker THEN R("overlap", b)
  ELSE
  LET onlyMult == (b.flags \div ONLYMULT) % 2 = 1
      conj == b.flags % 2 = 1
      smallerBlocked == onlyMult \/ (~conj /\ mk = "none" /\ ~IsFree(b, 4))
      l  == Lemmatize(w)
      pk == Peek(b, 2)
      X(r, nx) == [st |-> r.st, ds |-> r.ds, nx |-> nx]
      res ==
        IF l = "zero" THEN X(Put(b, "0"), 0)
        ELSE IF l \in DOMAIN Units /\ pk # "10" /\ ~smallerBlocked THEN X(Put(b, Units[l]), 0)
        ELSE IF l \in DOMAIN OrdUnits THEN X(Put(b, OrdUnits[l]), 0)
        ELSE IF l \in DOMAIN Smaller /\ ~smallerBlocked THEN X(Put(b, Smaller[l]), 0)
        ELSE IF l = "cem" /\ ~onlyMult THEN X(Put(b, "100"), ONLYMULT)
        ELSE IF l \in DOMAIN Hundreds /\ ~onlyMult THEN X(Put(b, Hundreds[l]), 0)
        ELSE IF l \in {"mil", "milésim"} /\ IsRangeFree(b, 3, 5) /\ (onlyMult \/ Peek(b, 3) # "100")
             THEN (IF pk = "1" THEN X(R("overlap", b), 0) ELSE X(Shift(b, 3), 0))
        ELSE IF l \in {"milhã", "milhões", "milionésim"} /\ IsRangeFree(b, 6, 8) THEN X(Shift(b, 6), 0)
        ELSE IF l \in {"bilhã", "biliã", "bilhões", "biliões", "bilionésim"} THEN X(Shift(b, 9), 0)
        ELSE IF l = "e" /\ DLen(b) >= 2 /\ b.marker = "none" /\ ~onlyMult THEN X(R("incomplete", b), 0)
        ELSE X(R("nan", b), 0)
  IN IF res.st = "ok" THEN R("ok", [res.ds EXCEPT !.marker = mk, !.flags = res.nx])
     ELSE IF res.st = "incomplete" THEN R("incomplete", [res.ds EXCEPT !.flags = CONJ])
     ELSE R(res.st, [res.ds EXCEPT !.flags = 0])

ExecGroup(toks) ==
  LET RECURSIVE go(_, _, _)
      go(i, b, inc) == IF i > Len(toks) THEN (IF inc THEN R("incomplete", b) ELSE R("ok", b))
                       ELSE LET r == Apply(toks[i], b) IN
                            IF r.st = "ok" THEN go(i + 1, r.ds, FALSE)
                            ELSE IF r.st = "incomplete" THEN go(i + 1, r.ds, TRUE)
                            ELSE R(r.st, b)
  IN go(1, New, FALSE)
ApplyDecimal(w, b) == Apply(w, b)
IsDecimalSep(w) == w = "vírgula"
DecimalMark == ","
Annotate(toks) == {}

Vocabulary == DOMAIN Units \cup DOMAIN OrdUnits \cup DOMAIN Smaller \cup DOMAIN Hundreds \cup
              {"zero", "cem", "mil", "milésim", "milhã", "milhões", "milionésim", "bilhã", "biliã", "bilhões", "biliões", "bilionésim", "e", "vírgula",
               "uma", "quatro", "cinco", "oito", "primeiro", "primeira", "primeiros", "primeiras", "segundo", "segunda", "terceiro", "quarta", "quinto",
               "sexta", "sétimo", "oitava", "nono", "nona", "décimo", "décima", "décimos", "vigésimo", "vigésima", "trigésimo", "centésimo", "centésima",
               "milésimo", "milésima", "milionésimo", "cento", "duzentos", "duzentas", "trezentos", "quinhentos", "novecentas", "milhão", "bilhão",
               "bilião", "trinta", "quarenta", "cinquenta", "sessenta", "setenta", "oitenta", "noventa", "dezoito", "gatos", "o", "a"}
=============================================================================
