------------------------------ MODULE Gen_Apply ------------------------------
(***************************************************************************)
(* Generator of word sequences for the apply-level conformance (S2): the   *)
(* word alphabet is the full vocabulary of the interpreter model (every    *)
(* literal of every match arm plus inflected and compound forms).          *)
(*  - every single word, every pair (or a seeded sample of the pairs),     *)
(*  - seeded sequences of 3..6 words; one in five goes through             *)
(*    apply_decimal.                                                       *)
(***************************************************************************)
EXTENDS Lang, SequencesExt, Json, IOUtils
Params == JsonDeserialize(IOEnv.PARAMS)
Lcg(x) == (x * 1021 + 24691) % 1048576
RECURSIVE LcgN(_, _)
LcgN(x, n) == IF n = 0 THEN x ELSE LcgN(Lcg(x), n - 1)
Start(seed, salt, r) == LcgN(((((seed % 100000) * 7919) % 1048576) + (((salt % 1000) * 611953) % 1048576) + (((r % 10007) * 104729) % 1048576) + ((r \div 10007) * 31)) % 1048576, 3)
Pick(seq, x) == seq[((x \div 16) % Len(seq)) + 1]
RECURSIVE RandWords(_, _, _)
RandWords(W, x, n) == IF n = 0 THEN <<>> ELSE <<Pick(W, x)>> \o RandWords(W, Lcg(Lcg(x)), n - 1)
Req(L, n, ws, dec) == [i |-> n, lang |-> L, words |-> ws, dec |-> dec]
ForLang(L, base) ==
  LET W == SetToSeq(VocabOf(L))  n == Len(W)
      singles == [j \in 1..n |-> Req(L, base + j, <<W[j]>>, FALSE)]
      pairs == IF Params.allpairs THEN [j \in 1..(n * n) |-> Req(L, base + n + j, <<W[((j - 1) \div n) + 1], W[((j - 1) % n) + 1]>>, FALSE)]
               ELSE [r \in 1..Params.pairs |-> LET x == Start(Params.seed, 7 + n, r) IN Req(L, base + n + r, <<Pick(W, x), Pick(W, Lcg(x))>>, FALSE)]
      rnd == [r \in 1..Params.randn |-> Req(L, base + n + Len(pairs) + r, RandWords(W, Start(Params.seed, 29 + n, r), 3 + (r % 4)), r % 5 = 0)]
  IN singles \o pairs \o rnd
RECURSIVE All(_, _)
All(k, base) == IF k > Len(Params.langs) THEN <<>>
                ELSE LET part == ForLang(Params.langs[k], base) IN part \o All(k + 1, base + Len(part))
ASSUME ndJsonSerialize(IOEnv.OUT, All(1, Params.base))
=============================================================================
