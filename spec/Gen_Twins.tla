------------------------------ MODULE Gen_Twins ------------------------------
(***************************************************************************)
(* Generator of two-run (self-composition) cases: a base text and variants *)
(* of it that the property says must be read the same way.                 *)
(*  kind = case : UPPER, Capitalised, aLtErNaTiNg, AlTeRnAtInG     (C11)   *)
(*  kind = ws   : every blank replaced by another whitespace run,          *)
(*                whitespace added at both ends                     (C17)   *)
(*  kind = o18  : English texts containing the one-letter word o; the twin *)
(*                replaces each o by zero when the nearest token before or *)
(*                after it (whitespace skipped) is a number word of the    *)
(*                model, else by an ordinary word                   (C18)   *)
(*  kind = asb  : A, separator S, B and the three texts A S B, A, B (C10)   *)
(***************************************************************************)
EXTENDS TextGen, Json, IOUtils, Lang

Params == JsonDeserialize(IOEnv.PARAMS)
Kind == Params.kind
Seed == Params.seed

\* base texts: words separated by a single blank or by punctuation + blank
BaseSeps == <<" ", ", ", " ", ". ", " ", "; ", " -", " ", "- ">>
BaseTexts(L) ==
  LET W == Words[L]
      singles == [j \in 1..Len(W) |-> W[j]]
      pairs == [j \in 1..(Len(W) * Len(W)) |-> W[((j - 1) \div Len(W)) + 1] \o " " \o W[((j - 1) % Len(W)) + 1]]
      rnd == [r \in 1..Params.randn |-> RandText(W, BaseSeps, Start(Seed, 11 + Len(W), r), 3 + (r % (Params.randlen - 2)))]
      \* a text that ends on a closing punctuation mark, nothing after it (whitespace added at the end must not matter)
      Closers == <<".", "!", "?", ",", ";", ":", "...", ")">>
      closed == [j \in 1..Len(W) |-> W[j] \o Closers[(j % Len(Closers)) + 1]]
                \o [r \in 1..Params.randn |-> rnd[r] \o Closers[(r % Len(Closers)) + 1]]
      CW == CoreWords[L]
      corepairs == [j \in 1..(Len(CW) * Len(CW) * 2) |-> LET a == ((j - 1) \div 2) \div Len(CW)  b == ((j - 1) \div 2) % Len(CW) IN
                      CW[a + 1] \o (IF j % 2 = 0 THEN " " ELSE ", ") \o CW[b + 1]]
  IN (IF Params.pairs THEN singles \o pairs ELSE singles) \o AmbigParts[L] \o rnd \o closed \o corepairs

\* ---- case variants ------------------------------------------------------
CaseVariants(s) == <<s, Upper(s), Alternate(s, TRUE), Alternate(s, FALSE), Capitalise(s)>>

\* ---- whitespace variants ------------------------------------------------
RECURSIVE ReplaceBlank(_, _)
ReplaceBlank(s, w) == IF s = "" THEN "" ELSE (IF Ch(s, 1) = " " THEN w ELSE Ch(s, 1)) \o ReplaceBlank(SubSeq(s, 2, Len(s)), w)
RECURSIVE ReplaceBlankCycle(_, _, _)
ReplaceBlankCycle(s, ws, k) == IF s = "" THEN ""
   ELSE IF Ch(s, 1) = " " THEN ws[(k % Len(ws)) + 1] \o ReplaceBlankCycle(SubSeq(s, 2, Len(s)), ws, k + 1)
   ELSE Ch(s, 1) \o ReplaceBlankCycle(SubSeq(s, 2, Len(s)), ws, k)
AllWs == AsciiWs \o UniWs
WsVariants(s, x) ==
  <<s, ReplaceBlank(s, "\t"), ReplaceBlank(s, "\n"), ReplaceBlank(s, "\r\n"), ReplaceBlank(s, UniWs[1]), ReplaceBlank(s, UniWs[12]),
    ReplaceBlank(s, UniWs[18]), ReplaceBlank(s, UniWs[14]), ReplaceBlank(s, "  "), ReplaceBlankCycle(s, AllWs, x),
    " " \o s \o " ", UniWs[1] \o ReplaceBlank(s, UniWs[16]) \o "\n", ReplaceBlank(s, Pick(AllWs, x) \o Pick(AllWs, Lcg(x))),
    ReplaceBlank(s, "\n\n"), ReplaceBlank(s, "\n \n"), ReplaceBlank(s, "\r\n\r\n"), ReplaceBlank(s, " \t ")>>

\* ---- C18: the English o ---------------------------------------------------
\* token lists: words and separators alternate; o18 alphabet has no "zero" so that the twin can be mapped back
O18Words == <<"o", "o", "one", "two", "twenty", "hundred", "third", "twenty-five", "and", "point", "apples", "the", "plus", "seven">>
O18Seps == <<" ", " ", " ", ", ", ". ", UniWs[1], "  ", "; ", " - ", " \n">>
RECURSIVE Alt(_, _, _)
Alt(x, n, first) == IF n = 0 THEN <<>> ELSE <<IF first THEN Pick(O18Words, x) ELSE Pick(O18Seps, x)>> \o Alt(Lcg(Lcg(x)), n - 1, ~first)
IsNumWord(w) == En!Apply(Lower(w), New).st = "ok"
\* neighbour of token i skipping whitespace-only tokens: dir = 1 / 0 (left)
RECURSIVE Neigh(_, _, _)
Neigh(toks, i, right) == LET j == IF right THEN i + 1 ELSE i - 1 IN
   IF j < 1 \/ j > Len(toks) THEN "" ELSE IF IsWsOnly(toks[j]) THEN Neigh(toks, j, right) ELSE toks[j]
TwinTok(toks, i) == IF toks[i] # "o" THEN toks[i]
                    ELSE IF IsNumWord(Neigh(toks, i, FALSE)) \/ IsNumWord(Neigh(toks, i, TRUE)) THEN "zero" ELSE "xq"
ForceO(toks, x) == LET nw == (Len(toks) + 1) \div 2  k == 2 * ((x \div 128) % nw) + 1 IN [toks EXCEPT ![k] = "o"]
\* the lone o, with nothing / blanks / punctuation around it
O18Fixed == << <<"o">>, <<"o", ".">>, <<"(", "o", ")">>, <<" ", "o", " ">>, <<"o", ", ">>, <<"\n", "o">>, <<"O">>, <<"o", " ", "o">>, <<"o", "!">> >>
O18Core == <<"o", "one", "twenty", "third", "and", "point", "apples">>
O18CoreSeps == <<" ", ", ", " - ">>
\* k enumerates every text of 3 words over O18Core x separators that contains an o
O18CoreToks(k) == LET nw == Len(O18Core)  ns == Len(O18CoreSeps)
                      w(d) == O18Core[((k \div Pow(nw, d - 1)) % nw) + 1]
                      r == k \div Pow(nw, 3)
                      sp(d) == O18CoreSeps[((r \div Pow(ns, d - 1)) % ns) + 1]
                  IN <<w(1), sp(1), w(2), sp(2), w(3)>>
O18CoreCount == Pow(Len(O18Core), 3) * Pow(Len(O18CoreSeps), 2)
O18CoreCase(k) == LET toks == O18CoreToks(k) IN <<Concat(toks), Concat([i \in 1..Len(toks) |-> TwinTok(toks, i)])>>
O18Case(x, n) == LET toks == IF n = 0 THEN O18Fixed[(x % Len(O18Fixed)) + 1] ELSE ForceO(Alt(x, n, TRUE), x) IN <<Concat(toks), Concat([i \in 1..Len(toks) |-> TwinTok(toks, i)])>>

\* ---- C10: A S B -----------------------------------------------------------
Parts(L) == LET W == Words[L] IN
   [j \in 1..Len(W) |-> W[j]] \o AmbigParts[L] \o AmbigParts[L] \o AmbigParts[L] \o [r \in 1..Params.randn |-> RandText(W, <<" ", " ", ", ">>, Start(Seed, 5, r), 2 + (r % 2))]
AsbCases(L) == LET P == Parts(L) S == StrongSep[L] n == Len(P) IN
   [j \in 1..Params.cases |->
      LET x == Start(Seed, 77 + Len(L), j)
          F == AmbigParts[L]  fam == j % 4 = 0        \* one case in four: both parts from the inflection / ambiguity families
          a == IF fam THEN F[((x \div 16) % Len(F)) + 1] ELSE P[((x \div 16) % n) + 1]
          b == IF fam THEN F[((Lcg(x) \div 16) % Len(F)) + 1] ELSE P[((Lcg(x) \div 16) % n) + 1]
          s == S[(j % Len(S)) + 1]
      IN <<a \o s \o b, a, b, s>>]
   \o LET DecP == <<CoreWords[L][2] \o " " \o SepWord[L] \o " " \o ZeroWord[L], CoreWords[L][1] \o " " \o SepWord[L] \o " " \o CoreWords[L][2],
                    CoreWords[L][2] \o " " \o SepWord[L], CoreWords[L][6] \o " " \o SepWord[L] \o " " \o CoreWords[L][1]>>      \* decimals, a dangling separator
          CW == CoreWords[L] \o DecP \o SubSeq(AmbigParts[L], 1, IF Len(AmbigParts[L]) < 4 THEN Len(AmbigParts[L]) ELSE 4)  m == Len(CW) IN
      [j \in 1..(m * m * Len(S)) |-> LET a == CW[(((j - 1) \div Len(S)) \div m) + 1]  b == CW[(((j - 1) \div Len(S)) % m) + 1]
                                         s == S[((j - 1) % Len(S)) + 1] IN <<a \o s \o b, a, b, s>>]

\* every text of a case runs on its own, newly created interpreter: the parts A and B are reference results that the
\* run on A S B cannot have influenced
Req(L, n, texts, extra) == [i |-> n, lang |-> L, texts |-> texts, thrs |-> Params.thrs, want |-> Params.want, kind |-> Kind, extra |-> extra,
                            fresh_each |-> Kind = "asb"]

ForLang(L, base) ==
  IF Kind = "case" THEN LET B == BaseTexts(L) IN [j \in 1..Len(B) |-> Req(L, base + j, CaseVariants(B[j]), "")]
  ELSE IF Kind = "ws" THEN LET B == BaseTexts(L) IN [j \in 1..Len(B) |-> Req(L, base + j, WsVariants(B[j], Start(Seed, 3, j)), "")]
  ELSE IF Kind = "o18" THEN [j \in 1..Params.cases |-> Req("en", base + j, IF j <= 9 THEN O18Case(j - 1, 0) ELSE O18Case(Start(Seed, 18, j), 3 + (j % 7)), "")]
                            \o [k \in 1..O18CoreCount |-> Req("en", base + Params.cases + k, O18CoreCase(k - 1), "")]
  ELSE LET C == AsbCases(L) IN [j \in 1..Len(C) |-> Req(L, base + j, <<C[j][1], C[j][2], C[j][3]>>, C[j][4])]

RECURSIVE All(_, _)
All(k, base) == IF k > Len(Params.langs) THEN <<>>
                ELSE LET part == ForLang(Params.langs[k], base) IN part \o All(k + 1, base + Len(part))
ASSUME ndJsonSerialize(IOEnv.OUT, All(1, 0))
=============================================================================
