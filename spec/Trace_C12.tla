----------------------------- MODULE Trace_C12 -----------------------------
(***************************************************************************)
(* Trace validation for S1 / C12 (monitor style, DESIGN.md 2.3, A.5).      *)
(* Rec is the sequence of events recorded from the REAL DigitString by the *)
(* harness: one event per executed operation = the operation, its result,  *)
(* and the projection of the builder after it (rendering, deref buffer,    *)
(* len, is_empty, is_null, frozen (hook), marker).  k = 1 starts a new run *)
(* on a new builder.  One TLC state per event; every event is consumed:    *)
(*   - the PROPERTY  P!StepOK(ev, o, o')  is evaluated on the recorded      *)
(*     observations (verdict; failures go to pbad);                        *)
(*   - the MODEL step  Do(m, ev)  is compared with the recorded result and *)
(*     projection (mismatch = drift, reported, never a verdict); after a   *)
(*     drift the model is re-synchronised from the logged projection so    *)
(*     that the rest of the trace is still examined.                       *)
(* Acceptance: POSTCONDITION on the diameter (all events consumed).        *)
(***************************************************************************)
EXTENDS DigitString, TLC, Json, IOUtils
P == INSTANCE Props12

Rec == ndJsonDeserialize(IOEnv.TRACE)

VARIABLES l, o, m, pbad, drift

ObsOf(d) == [r |-> Render(d), b |-> d.buf, len |-> DLen(d), empty |-> IsEmpty(d),
             null |-> IsNull(d), fz |-> d.frozen, mk |-> d.marker]
ObsRec(e) == [r |-> e.r, b |-> e.b, len |-> e.len, empty |-> e.empty,
              null |-> e.null, fz |-> e.fz, mk |-> e.mk]

\* Failure lists live in TLC registers (side effect, -workers 1), the state only carries
\* their lengths: a state that embeds a growing list costs O(length) to fingerprint.
Init == l = 1 /\ o = ObsOf(New) /\ m = New /\ pbad = 0 /\ drift = 0
        /\ TLCSet(1, <<>>) /\ TLCSet(2, <<>>)

Next ==
  /\ l <= Len(Rec)
  /\ l' = l + 1
  /\ LET e  == Rec[l]
         o0 == IF e.k = 1 THEN ObsOf(New) ELSE o
         m0 == IF e.k = 1 THEN New ELSE m
         o2 == ObsRec(e)
         ev == [op |-> e.op, a |-> e.a, p |-> e.p, q |-> e.q, st |-> e.st]
         v  == P!StepVerdict(ev, o0, o2)
         rr == Do(m0, ev)
         mok == rr.st = e.st /\ ObsOf(rr.ds) = o2
     IN /\ o' = o2
        /\ pbad' = IF v = "" THEN pbad ELSE pbad + 1
        /\ (v # "") => TLCSet(1, Append(TLCGet(1), [l |-> l, i |-> e.i, k |-> e.k, verdict |-> v]))
        /\ drift' = IF mok THEN drift ELSE drift + 1
        /\ (~mok) => TLCSet(2, Append(TLCGet(2), [l |-> l, i |-> e.i, k |-> e.k, model_st |-> rr.st, model_r |-> Render(rr.ds)]))
        /\ m' = IF mok THEN rr.ds
                ELSE [buf |-> e.b, lz |-> e.len - Len(e.b), frozen |-> e.fz, flags |-> 0, marker |-> e.mk]

Spec == Init /\ [][Next]_<<l, o, m, pbad, drift>>

Done == l = Len(Rec) + 1
Report == Done => JsonSerialize(IOEnv.OUT, [events |-> Len(Rec), pbad |-> TLCGet(1), drift |-> TLCGet(2)])
Accepted == TLCGet("stats").diameter = Len(Rec) + 1
=============================================================================
