SPECIFICATION Spec
CONSTANTS
  Bug_ShiftNonAtomic = FALSE
  Bug_PushIgnoresFrozen = FALSE
  Bug_PositionFreeUnderflow = FALSE
  L = "de"
  Alphabet = {"null", "ein", "eins", "zwanzig", "hundert", "und", "komma", "dritte", "einundzwanzig", "katzen", "ja"}
  MaxWords = 3
  Thrs = {"0", "10"}
  StrongSeps = {" katzen schlafen heute. "}
INVARIANT CaseOK
INVARIANT WsOK
INVARIANT ContextOK
INVARIANT NoNumberNoChange
CHECK_DEADLOCK FALSE
