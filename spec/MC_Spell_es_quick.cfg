SPECIFICATION Spec
CONSTANTS
  Bug_ShiftNonAtomic = FALSE
  Bug_PushIgnoresFrozen = FALSE
  Bug_PositionFreeUnderflow = FALSE
  L = "es"
  RLow = {0, 1, 7, 10, 13, 20, 21, 99, 100, 101, 110, 999}
  RHigh = {0, 1, 21, 100}
  MaxZeros = 1
INVARIANT NeverSplit
INVARIANT RoundTrip
CHECK_DEADLOCK FALSE
