SPECIFICATION Spec
CONSTANTS
  Bug_ShiftNonAtomic = FALSE
  Bug_PushIgnoresFrozen = FALSE
  Bug_PositionFreeUnderflow = FALSE
  DigitArgs = {"0", "1", "5", "20", "00", ""}
  Digits1 = {"0", "3"}
  Positions = {0, 1, 2}
  MaxBuf = 5
  MaxLz = 1
CONSTRAINT Bound
INVARIANT ValidInv
CHECK_DEADLOCK FALSE
