------------------------------ MODULE Lang_nl ------------------------------
(***************************************************************************)
(* S2 / S2' for Dutch (src/lang/nl/mod.rs), string-exact: no lemmatizer,   *)
(* compounds cut by the WordSplitter (whose pattern list contains the      *)
(* number words that embed the connector en), TENS flag, put_digit_at.     *)
(***************************************************************************)
EXTENDS LangCommon

Patterns == {"honderd", "honderdste", "duizend", "duizendste", "miljoen", "miljoenste", "miljard", "miljardste", "biljoen", "biljoenste",
             "een", "drie", "zeven", "zevende", "negen", "negende", "tien", "tiende", "dertien", "dertiende", "veertien", "veertiende",
             "vijftien", "vijftiende", "zestien", "zestiende", "zeventien", "zeventiende", "achttien", "achttiende",
             "negentien", "negentiende", "zeventig", "zeventigste", "negentig", "negentigste", "en", "ën"}
MorphMarker(w) == IF EndsWith(w, "ste") \/ EndsWith(w, "de") THEN OrdMk("e") ELSE "none"
TENS == 1
Units == ("één" :> "1") @@ ("een" :> "1") @@ ("eerste" :> "1") @@ ("twee" :> "2") @@ ("tweede" :> "2") @@ ("drie" :> "3") @@ ("derde" :> "3")
      @@ ("vier" :> "4") @@ ("vierde" :> "4") @@ ("vijf" :> "5") @@ ("vijfde" :> "5") @@ ("zes" :> "6") @@ ("zesde" :> "6")
      @@ ("zeven" :> "7") @@ ("zevende" :> "7") @@ ("acht" :> "8") @@ ("achtste" :> "8") @@ ("negen" :> "9") @@ ("negende" :> "9")
Teens == ("tien" :> "10") @@ ("tiende" :> "10") @@ ("elf" :> "11") @@ ("elfde" :> "11") @@ ("twaalf" :> "12") @@ ("twaalfde" :> "12")
      @@ ("dertien" :> "13") @@ ("dertiende" :> "13") @@ ("veertien" :> "14") @@ ("veertiende" :> "14") @@ ("vijftien" :> "15") @@ ("vijftiende" :> "15")
      @@ ("zestien" :> "16") @@ ("zestiende" :> "16") @@ ("zeventien" :> "17") @@ ("zeventiende" :> "17")
      @@ ("achttien" :> "18") @@ ("achttiende" :> "18") @@ ("negentien" :> "19") @@ ("negentiende" :> "19")
Tens == ("twintig" :> "2") @@ ("twintigste" :> "2") @@ ("dertig" :> "3") @@ ("dertigste" :> "3") @@ ("veertig" :> "4") @@ ("veertigste" :> "4")
     @@ ("vijftig" :> "5") @@ ("vijftigste" :> "5") @@ ("zestig" :> "6") @@ ("zestigste" :> "6") @@ ("zeventig" :> "7") @@ ("zeventigste" :> "7")
     @@ ("tachtig" :> "8") @@ ("tachtigste" :> "8") @@ ("negentig" :> "9") @@ ("negentigste" :> "9")

RECURSIVE Apply(_, _)
ExecGroup(toks) ==
  LET RECURSIVE go(_, _, _)
      go(i, b, inc) == IF i > Len(toks) THEN (IF inc THEN R("incomplete", b) ELSE R("ok", b))
                       ELSE LET r == Apply(toks[i], b) IN
                            IF r.st = "ok" THEN go(i + 1, r.ds, FALSE)
                            ELSE IF r.st = "incomplete" THEN go(i + 1, r.ds, TRUE)
                            ELSE R(r.st, b)
  IN go(1, New, FALSE)

Apply(w, b) ==
  IF IsSplittable(Patterns, w) THEN
     LET g == ExecGroup(Split(Patterns, w)) IN
     IF g.st = "incomplete" THEN R("nan", b)         \* repaired: a compound ending on a dangling conjunction is not a number
     ELSE IF g.st # "ok" THEN R(g.st, b)
     ELSE IF DLen(g.ds) > 3 /\ DLen(g.ds) <= 6 /\ ~IsRangeFree(b, 3, 5) THEN R("overlap", b)
     ELSE LET r == Put(b, g.ds.buf) IN
          IF r.st # "ok" THEN R(r.st, b)
          ELSE IF IsOrdinal(g.ds) THEN R("ok", [r.ds EXCEPT !.marker = g.ds.marker, !.frozen = TRUE]) ELSE r
  ELSE
  LET blocked == b.flags % 2 = 1
      pk == Peek(b, 2)
      X(r, blk) == [st |-> r.st, ds |-> r.ds, block |-> blk]
      res ==
        IF w = "nul" THEN X(Put(b, "0"), 0)
        ELSE IF w \in DOMAIN Units /\ IsFree(b, 2) THEN X(Put(b, Units[w]), TENS)
        ELSE IF w \in DOMAIN Teens THEN X(Put(b, Teens[w]), 0)
        ELSE IF w \in DOMAIN Tens /\ ~blocked THEN X(PutDigitAt(b, Tens[w], 1), 0)
        ELSE IF w \in {"honderd", "honderdste"} THEN (IF pk = "1" THEN X(R("overlap", b), 0) ELSE X(Shift(b, 2), 0))
        ELSE IF w \in {"duizend", "duizendste"} /\ IsRangeFree(b, 3, 5) THEN (IF pk = "1" THEN X(R("overlap", b), 0) ELSE X(Shift(b, 3), 0))
        ELSE IF w \in {"miljoen", "miljoenste"} /\ IsRangeFree(b, 6, 8) THEN X(Shift(b, 6), 0)
        ELSE IF w \in {"miljard", "miljardste"} THEN X(Shift(b, 9), 0)
        ELSE IF w \in {"biljoen", "biljoenste"} THEN X(Shift(b, 12), 0)
        ELSE IF w \in {"en", "ën"} /\ (IsEmpty(b) \/ ~IsNull(b)) THEN X(R("incomplete", b), 0)    \* repaired
        ELSE X(R("nan", b), 0)
  IN IF res.st = "ok"
     THEN LET d1 == [res.ds EXCEPT !.flags = res.block] IN
          R("ok", IF EndsWith(w, "te") \/ EndsWith(w, "de") THEN [d1 EXCEPT !.marker = MorphMarker(w), !.frozen = TRUE] ELSE d1)
     ELSE R(res.st, [res.ds EXCEPT !.flags = 0])
ApplyDecimal(w, b) == Apply(w, b)
IsDecimalSep(w) == w = "komma"
DecimalMark == ","
Annotate(toks) == {}

Vocabulary == DOMAIN Units \cup DOMAIN Teens \cup DOMAIN Tens \cup Patterns \cup
              {"nul", "komma", "eenentwintig", "tweeëntwintig", "drieënvijftig", "eenentwintigste", "tweehonderd", "honderdeen", "tweeduizend",
               "driehonderdduizend", "negentienhonderddrieënzeventig", "tweehonderdste", "duizendste", "vijfendertigste", "honderden", "katten", "de"}
=============================================================================
