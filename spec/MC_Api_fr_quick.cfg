SPECIFICATION Spec
CONSTANTS
  Bug_ShiftNonAtomic = FALSE
  Bug_PushIgnoresFrozen = FALSE
  Bug_PositionFreeUnderflow = FALSE
  L = "fr"
  Alphabet = {"neuf", "un", "le", "du", "vingt", "cent", "et", "virgule", "chats", "numéro", "zéro", "première"}
  MaxWords = 2
  Thrs = {"0", "10"}
  StrongSeps = {" chats noirs dorment. "}
INVARIANT CaseOK
INVARIANT WsOK
INVARIANT ContextOK
INVARIANT NoNumberNoChange
CHECK_DEADLOCK FALSE
