------------------------------ MODULE Tokenizer ------------------------------
(***************************************************************************)
(* S6 -- the plain-text tokenizer (src/tokenizer.rs Tokenize): a two-mode  *)
(* machine over the characters.  A token that starts with an alphanumeric  *)
(* character is a word and extends over alphanumerics, hyphens and         *)
(* apostrophes; any other token is a separator and extends to the next     *)
(* alphanumeric character.  S8 -- the splice of replace_numbers_in_text.   *)
(* As a state machine (Init/Next over cursor and mode) for MC_Tokenizer,   *)
(* and as the operator Tokenize(text) for the validators.                  *)
(***************************************************************************)
EXTENDS Chars

RECURSIVE WordEnd(_, _)
WordEnd(s, i) == IF i <= Len(s) /\ IsWordChar(Ch(s, i)) THEN WordEnd(s, i + 1) ELSE i      \* first index not in the word
RECURSIVE SepEnd(_, _)
SepEnd(s, i) == IF i <= Len(s) /\ ~IsAlnum(Ch(s, i)) THEN SepEnd(s, i + 1) ELSE i
RECURSIVE TokFrom(_, _)
TokFrom(s, i) == IF i > Len(s) THEN <<>>
                 ELSE LET j == IF IsAlnum(Ch(s, i)) THEN WordEnd(s, i + 1) ELSE SepEnd(s, i + 1)
                      IN <<SubSeq(s, i, j - 1)>> \o TokFrom(s, j)
Tokenize(s) == TokFrom(s, 1)

\* ---- the same machine, one character per step --------------------------
\* state: [done (tokens emitted), cur (token being built), mode ("none" | "word" | "sep")]
TInit == [done |-> <<>>, cur |-> "", mode |-> "none"]
TStep(st, c) ==
  IF st.mode = "none" THEN [st EXCEPT !.cur = c, !.mode = IF IsAlnum(c) THEN "word" ELSE "sep"]
  ELSE IF st.mode = "word" /\ IsWordChar(c) THEN [st EXCEPT !.cur = @ \o c]
  ELSE IF st.mode = "sep" /\ ~IsAlnum(c) THEN [st EXCEPT !.cur = @ \o c]
  ELSE [done |-> Append(st.done, st.cur), cur |-> c, mode |-> IF IsAlnum(c) THEN "word" ELSE "sep"]
TFinish(st) == IF st.mode = "none" THEN st.done ELSE Append(st.done, st.cur)
=============================================================================
