---------------------------- MODULE Gen_Streams ----------------------------
(***************************************************************************)
(* Generator of the shared stream set of C02, C06, C07, C09: texts built      *)
(* from the stream alphabet A_L of each language:                          *)
(*  - every text of ExLen words x every separator of ExSeps (exhaustive),  *)
(*  - every single word,                                                   *)
(*  - RandN seeded texts of RandLen words with random separators.          *)
(* Each request carries the thresholds at which the real code is run.      *)
(***************************************************************************)
EXTENDS TextGen, Json, IOUtils, SequencesExt

\* parameters chosen by the orchestrator (tier, VERIF_SEED), passed as a JSON file
Params == JsonDeserialize(IOEnv.PARAMS)
LangsToDo == Params.langs
ExLen == Params.exlen
ExSeps == Params.exseps
RandN == Params.randn
RandLen == Params.randlen
Seed == Params.seed
Thrs == Params.thrs
Want == Params.want

RECURSIVE BlankSplit(_, _, _)
BlankSplit(s, i, cur) == IF i > Len(s) THEN (IF cur = "" THEN <<>> ELSE <<cur>>)
                         ELSE IF Ch(s, i) = " " THEN (IF cur = "" THEN <<>> ELSE <<cur>>) \o BlankSplit(s, i + 1, "")
                         ELSE BlankSplit(s, i + 1, cur \o Ch(s, i))
Req(L, n, text) == [i |-> n, lang |-> L, texts |-> <<text>>, thrs |-> Thrs, want |-> Want]

ForLang(L, base) ==
  LET LinkW == IF "linkwords" \in DOMAIN Params /\ Params.linkwords
               THEN SetToSeq({w \in Linking[L] : \A i \in 1..Len(w) : Ch(w, i) # " "}) ELSE <<>>     \* every linking word of the language (C09)
      \* the single words of the multi-word linking entries ("outra vez", "aí está"): ordinary words as far as the scanner is concerned
      LinkParts == IF "linkwords" \in DOMAIN Params /\ Params.linkwords
                   THEN SetToSeq(UNION {{p \in RangeOf(BlankSplit(w, 1, "")) : p \notin Linking[L]} : w \in {x \in Linking[L] : \E i \in 1..Len(x) : Ch(x, i) = " "}})
                   ELSE <<>>
      W == Words[L] \o LinkW \o LinkParts \o BigParts[L]
      S == SubSeqIdx(Seps, ExSeps)
      n1 == Len(W)
      n2 == ExCount(W, S, ExLen)
      singles == [j \in 1..n1 |-> Req(L, base + j, W[j])]
      ex == [j \in 1..n2 |-> Req(L, base + n1 + j, ExText(W, S, ExLen, j - 1))]
      rnd == [r \in 1..RandN |-> Req(L, base + n1 + n2 + r,
                 RandText(W, Seps, Start(Seed, Len(L) + Len(W), r), RandLen - (r % 3)))]
      \* every text of CoreLen words over the core alphabet x blank / comma (C09: every arrangement of small numbers, ambiguous
      \* words, linking words, ordinary words, ordinals around each other)
      CoreLen == IF "corelen" \in DOMAIN Params THEN Params.corelen ELSE 0
      CS == <<" ", ", ", ". ">>
      n3 == IF CoreLen = 0 THEN 0 ELSE ExCount(CoreWords[L], CS, CoreLen)
      core == [j \in 1..n3 |-> Req(L, base + n1 + n2 + RandN + j, ExText(CoreWords[L], CS, CoreLen, j - 1))]
      \* thorough tier: every text of CoreLen2 words over the core alphabet separated by single blanks
      CoreLen2 == IF "corelen2" \in DOMAIN Params THEN Params.corelen2 ELSE 0
      n4 == IF CoreLen2 = 0 THEN 0 ELSE ExCount(CoreWords[L], <<" ">>, CoreLen2)
      core2 == [j \in 1..n4 |-> Req(L, base + n1 + n2 + RandN + n3 + j, ExText(CoreWords[L], <<" ">>, CoreLen2, j - 1))]
  IN singles \o ex \o rnd \o core \o core2

RECURSIVE All(_, _)
All(k, base) == IF k > Len(LangsToDo) THEN <<>>
                ELSE LET part == ForLang(LangsToDo[k], base) IN part \o All(k + 1, base + Len(part))

ASSUME ndJsonSerialize(IOEnv.OUT, All(1, 0))
=============================================================================
