------------------------------ MODULE Gen_Spell ------------------------------
(***************************************************************************)
(* Generator of spelled numbers (C01 and, through kind, C04 C05 C08 C16).  *)
(* TLC is the only speller: the harness knows no language.                 *)
(* Number domain (orchestrator parameters):                                *)
(*   upto   : EVERY n < upto (upto <= 10^6)                                *)
(*   rlow x rlow x rhigh x rhigh : representative 3-digit groups           *)
(*   randn  : seeded random numbers below 10^12                            *)
(* each in every variant of the language; each phrase is executed alone    *)
(* and inside a non-number sentence context (prefix, suffix).              *)
(***************************************************************************)
EXTENDS SpellerOrd, Vocab, Json, IOUtils
Params == JsonDeserialize(IOEnv.PARAMS)
Seed == Params.seed
Lcg(x) == (x * 1021 + 24691) % 1048576
RECURSIVE LcgN(_, _)
LcgN(x, n) == IF n = 0 THEN x ELSE LcgN(Lcg(x), n - 1)
Start(seed, salt, r) == LcgN(((((seed % 100000) * 7919) % 1048576) + (((salt % 1000) * 611953) % 1048576) + (((r % 10007) * 104729) % 1048576) + ((r \div 10007) * 31)) % 1048576, 3)

RECURSIVE Pow10(_)
Pow10(e) == IF e = 0 THEN 1 ELSE 10 * Pow10(e - 1)
RECURSIVE SeqToStr0(_)
SeqToStr0(f) == IF Len(f) = 0 THEN "" ELSE f[1] \o SeqToStr0(Tail(f))
\* all digit strings of length 1..m, enumerated: index y -> (length, offset)
RECURSIVE DictTotal(_)
DictTotal(m) == IF m = 0 THEN 0 ELSE Pow10(m) + DictTotal(m - 1)
RECURSIVE DictLenFrom(_, _)
DictLenFrom(y, len) == IF y < Pow10(len) THEN len ELSE DictLenFrom(y - Pow10(len), len + 1)
DictLen(y) == DictLenFrom(y, 1)
DictIdx(y) == y - DictTotal(DictLen(y) - 1)
\* sentence contexts without number words and outside every ambiguity rule
Contexts ==
  [ en |-> << <<"", "">>, <<"I have ", " apples">>, <<"Total: ", ".">>, <<"We saw ", ", then left">> >>,
    fr |-> << <<"", "">>, <<"Il y a ", " chats">>, <<"Total : ", ".">>, <<"Nous avons vu ", ", puis rien">> >>,
    es |-> << <<"", "">>, <<"Hay ", " gatos">>, <<"Total: ", ".">>, <<"Vimos ", ", nada más">> >>,
    pt |-> << <<"", "">>, <<"Temos ", " gatos">>, <<"Total: ", ".">>, <<"Vimos ", ", nada disso">> >>,
    it |-> << <<"", "">>, <<"Ci sono ", " gatti">>, <<"Totale: ", ".">>, <<"Vediamo ", ", niente altro">> >>,
    de |-> << <<"", "">>, <<"Es gibt ", " Katzen">>, <<"Summe: ", ".">>, <<"Wir sahen ", ", sonst nichts">> >>,
    nl |-> << <<"", "">>, <<"Er zijn ", " katten">>, <<"Totaal: ", ".">>, <<"Wij zagen ", ", verder niets">> >> ]

\* ---- the number domain ---------------------------------------------------
NUpto == Params.upto                                                  \* how many consecutive numbers
From == IF "from" \in DOMAIN Params THEN Params.from ELSE 0          \* ... starting from here (chunked sweeps)
NRep == Len(Params.rlow) * Len(Params.rlow) * Len(Params.rhigh) * Len(Params.rhigh)
RepGs(j) == LET nl == Len(Params.rlow) nh == Len(Params.rhigh) IN
   <<Params.rlow[(j % nl) + 1], Params.rlow[((j \div nl) % nl) + 1],
     Params.rhigh[((j \div (nl * nl)) % nh) + 1], Params.rhigh[((j \div (nl * nl * nh)) % nh) + 1]>>
RandGs(x) == LET a == Lcg(x) b == Lcg(a) c == Lcg(b) d == Lcg(c) k == (x \div 16) % 4 IN   \* k+1 = number of groups used
   <<(a \div 8) % 1000,
     IF k >= 1 THEN (IF (b \div 512) % 4 = 0 THEN 0 ELSE (b \div 8) % 1000) ELSE 0,
     IF k >= 2 THEN (IF (c \div 512) % 4 = 0 THEN 0 ELSE (c \div 8) % 1000) ELSE 0,
     IF k >= 3 THEN (d \div 8) % 1000 ELSE 0>>
NNum == NUpto + NRep + Params.randn
GsOf(L, j) ==    \* j in 0..NNum-1
  IF j < NUpto THEN <<(From + j) % 1000, (From + j) \div 1000, 0, 0>>
  ELSE IF j < NUpto + NRep THEN RepGs(j - NUpto)
  ELSE RandGs(Start(Seed, Len(L) + 41, j - NUpto - NRep))

Kind == Params.kind
WantOr(default) == IF "want" \in DOMAIN Params THEN Params.want ELSE default
Ctx(L, n) == LET C == Contexts[L] IN C[(n % Len(C)) + 1]
\* numbers whose standard spelling falls under a recorded C01 finding are kept out of the other kinds,
\* so that each finding is reported by exactly one property (de: eine Million / eine Milliarde)
Clean(L, gs) == IF L = "de" THEN [gs EXCEPT ![3] = IF @ = 1 THEN 2 ELSE @, ![4] = IF @ = 1 THEN 2 ELSE @] ELSE gs
Below9(gs) == [gs EXCEPT ![4] = 0]

CardReq(L, n, gs, v) == LET c == Ctx(L, n)  phrase == Cardinal(L, gs, v) IN
  [i |-> n, kind |-> "card", lang |-> L, gs |-> gs, v |-> v, pre |-> c[1], suf |-> c[2],
   texts |-> <<phrase, c[1] \o phrase \o c[2]>>, thrs |-> <<"0">>, want |-> WantOr(<<"t2d", "rew">>)]
\* C16: k zero words then the number; the number then a zero word
ZerosReq(L, n, gs0, v, k) == LET gs == IF IsZero(Below9(Clean(L, gs0))) THEN <<1, 0, 0, 0>> ELSE Below9(Clean(L, gs0))
                                 c == Ctx(L, n)  num == Cardinal(L, gs, v)
                                 phrase == JoinW([j \in 1..k |-> ZeroWord[L]] \o <<num>>) IN
  [i |-> n, kind |-> "zeros", lang |-> L, gs |-> gs, v |-> v, k |-> k, pre |-> c[1], suf |-> c[2],
   texts |-> <<phrase, c[1] \o phrase \o c[2], num \o " " \o ZeroWord[L], ZeroWord[L]>>, thrs |-> <<"0">>, want |-> WantOr(<<"t2d", "rew">>)]
\* C05: integer part, separator word, fraction; and the negative forms
DigitStr(x, len) == [j \in 1..len |-> Ch("0123456789", ((LcgN(x, j) \div 32) % 10) + 1)]
DecReq(L, n, gs0, d) == LET gs == Below9(Clean(L, gs0))  c == Ctx(L, n)  v == Variants(L)[(n % Len(Variants(L))) + 1]     \* the integer part in every spelling variant
                            int == Cardinal(L, gs, v)  fr == Frac(L, d)  sep == SepWord[L]
                            phrase == int \o " " \o sep \o " " \o fr
                            one == DigitWords[L][6] IN
  [i |-> n, kind |-> "dec", lang |-> L, gs |-> gs, v |-> v, d |-> d, pre |-> c[1], suf |-> c[2], sep |-> sep, five |-> one,
   texts |-> <<phrase, c[1] \o phrase \o c[2], sep \o " " \o one, one \o " " \o sep, one \o " " \o sep \o " xyz", one \o " " \o sep \o ", " \o one,
               phrase \o " " \o sep \o " " \o one>>,
   thrs |-> <<"0">>, want |-> WantOr(<<"rew", "occs">>)]
\* C08: two numbers below 100, one after the other, with a blank or the conjunction between them
PairReq(L, n, a, b, conj, v) == LET sa == Cardinal(L, <<a, 0, 0, 0>>, v)  sb == Cardinal(L, <<b, 0, 0, 0>>, v)
                                    j == IF conj THEN " " \o ConjWord[L] \o " " ELSE " " IN
  [i |-> n, kind |-> "pair", lang |-> L, a |-> a, b |-> b, v |-> v, conj |-> conj, joiner |-> j,
   texts |-> <<sa \o j \o sb>>, thrs |-> <<"0">>, want |-> <<"rew">>]
\* C10, second clause: punctuation between two spelled numbers keeps them apart
Puncts == <<", ", "; ", ": ", "! ", "? ", " / ", " (", ") ", "… ", " – ", ". ", ",", " , ", "\" ", " - ", " — ", " -- ", ":", ";">>
PunctReq(L, n, ga0, gb0, v, pu) == LET ga == Clean(L, ga0)  gb == Clean(L, gb0) IN
  [i |-> n, kind |-> "punct", lang |-> L, ga |-> ga, gb |-> gb, v |-> v, p |-> pu,
   texts |-> <<Cardinal(L, ga, v) \o pu \o Cardinal(L, gb, v)>>, thrs |-> <<"0">>, want |-> WantOr(<<"rew">>)]
DictReq(L, n, d) == [i |-> n, kind |-> "dict", lang |-> L, d |-> d, texts |-> <<Dictation(L, d)>>, thrs |-> <<"0">>, want |-> <<"rew">>]
\* j-th digit string of length len (0-based j)
NthDigits(j, len) == [p \in 1..len |-> Ch("0123456789", ((j \div Pow10(len - p)) % 10) + 1)]

OrdContexts ==
  [ en |-> << <<"", "">>, <<"the ", " time">>, <<"It was the ", ".">> >>,
    fr |-> << <<"", "">>, <<"la ", " fois">>, <<"C'était la ", ".">> >>,
    es |-> << <<"", "">>, <<"la ", " vez">>, <<"Fue la ", ".">> >>,
    pt |-> << <<"", "">>, <<"pela ", " vez">>, <<"Foi a ", ".">> >>,
    it |-> << <<"", "">>, <<"la ", " volta">>, <<"Era la ", ".">> >>,
    de |-> << <<"", "">>, <<"der ", " Tag">>, <<"Es war der ", ".">> >>,
    nl |-> << <<"", "">>, <<"de ", " keer">>, <<"Het was de ", ".">> >> ]
\* C04: ordinals.  ranks: every rank below upto, then 10^6, then seeded ranks below 10^6 (es/pt: below 2000)
OrdGs(L, j) == LET lim == IF L \in {"es", "pt"} THEN 1999 ELSE 999999 IN
  IF j < NUpto - 1 THEN (IF From + j + 1 <= lim THEN <<(From + j + 1) % 1000, (From + j + 1) \div 1000, 0, 0>> ELSE <<(j % 999) + 1, 1, 0, 0>>)
  ELSE IF j = NUpto - 1 THEN (IF L \in {"es", "pt"} THEN <<999, 1, 0, 0>> ELSE <<0, 0, 1, 0>>)
  ELSE LET x == Start(Seed, 23 + Len(L), j)  a == (Lcg(x) \div 8) % 1000  b == (Lcg(Lcg(x)) \div 8) % 1000 IN
       IF L \in {"es", "pt"} THEN <<IF a = 0 THEN 1 ELSE a, b % 2, 0, 0>> ELSE <<IF a = 0 /\ b = 0 THEN 1 ELSE a, b, 0, 0>>
OrdReq(L, n, gs, v, infl) == LET C == OrdContexts[L]  c == C[(n % Len(C)) + 1]  phrase == Ordinal(L, gs, v, infl) IN
  [i |-> n, kind |-> "ord", lang |-> L, gs |-> gs, v |-> v, infl |-> infl, pre |-> c[1], suf |-> c[2],
   texts |-> <<phrase, c[1] \o phrase \o c[2]>>, thrs |-> <<"0">>, want |-> WantOr(<<"t2d", "rew", "occs">>)]

ForLang(L, base) ==
  LET VS == Variants(L) nv == Len(VS) IN
  IF Kind = "ord" THEN
    LET OV == OrdVariants(L)  INF == Infls(L)  nc == Len(OV) * Len(INF)  tot == NUpto + Params.randn IN
    [x \in 1..(tot * nc) |-> LET j == (x - 1) \div nc  c == (x - 1) % nc
                             IN OrdReq(L, base + x, OrdGs(L, j), OV[(c % Len(OV)) + 1], INF[(c \div Len(OV)) + 1])]
  ELSE
  IF Kind = "card" THEN
    [x \in 1..(NNum * nv) |-> LET j == (x - 1) \div nv IN CardReq(L, base + x, GsOf(L, j), VS[((x - 1) % nv) + 1])]
  ELSE IF Kind = "zeros" THEN
    [x \in 1..(NNum * nv) |-> LET j == (x - 1) \div nv IN ZerosReq(L, base + x, GsOf(L, j), VS[((x - 1) % nv) + 1], x % 7)]
  ELSE IF Kind = "dec" THEN
    LET nd == Len(Params.fracs) IN
    [x \in 1..(NNum * Params.perint) |-> LET j == (x - 1) \div Params.perint
                                              d == IF x % 2 = 0 THEN Params.fracs[(((x % 10007) * 7919 + (x \div 10007)) % nd) + 1]
                                                   ELSE SeqToStr0(DigitStr(Start(Seed, 91, x), 1 + (x % 6)))
                                          IN DecReq(L, base + x, GsOf(L, j), d)]
  ELSE IF Kind = "punct" THEN
    [x \in 1..(NNum * Len(Puncts)) |-> LET j == (x - 1) \div Len(Puncts)  pi == ((x - 1) % Len(Puncts)) + 1
                                       IN PunctReq(L, base + x, GsOf(L, j), GsOf(L, (j * 7 + 3) % NNum), VS[(x % nv) + 1], Puncts[pi])]
  ELSE IF Kind = "pair" THEN
    [x \in 1..(10000 * 2 * Params.pairvariants) |->
        LET y == x - 1  a == y % 100  b == (y \div 100) % 100  cj == (y \div 10000) % 2 = 1  vi == (y \div 20000) + 1
        IN PairReq(L, base + x, a, b, cj, VS[vi])]
  ELSE \* dict: every digit sequence up to Params.dictlen, then seeded longer ones
    LET tot == DictTotal(Params.dictlen) IN
    [x \in 1..(tot + Params.randn) |->
        IF x <= tot THEN DictReq(L, base + x, SeqToStr0(NthDigits(DictIdx(x - 1), DictLen(x - 1))))
        ELSE DictReq(L, base + x, SeqToStr0(DigitStr(Start(Seed, 57, x), 7 + (x % 2))))]
RECURSIVE All(_, _)
All(k, base) == IF k > Len(Params.langs) THEN <<>>
                ELSE LET part == ForLang(Params.langs[k], base) IN part \o All(k + 1, base + Len(part))
ASSUME ndJsonSerialize(IOEnv.OUT, All(1, Params.base))
=============================================================================
