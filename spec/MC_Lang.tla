------------------------------- MODULE MC_Lang -------------------------------
(***************************************************************************)
(* S2 explored as a state machine: the builder is the state, every word of *)
(* the interpreter's full vocabulary is an input; all word sequences up to *)
(* MaxLen.  Asserted on EVERY transition (action property, no history):    *)
(*  - a word that is not accepted changes nothing observable of the number *)
(*    (rendering, buffer, leading zeroes, frozen, marker) -- failure       *)
(*    atomicity of S1 lifted to the interpreters (C07, C12);               *)
(*  - once the builder is frozen no word is accepted any more (C04);       *)
(*  - an accepted word never shrinks the rendering, and the rendering is   *)
(*    always a digit string; a marker is an ordinal or fraction marker of  *)
(*    the language's table (C06).                                          *)
(***************************************************************************)
EXTENDS Lang, TLC
V == INSTANCE Vocab
CONSTANTS L, MaxLen
VARIABLES ds, n
Init == ds = New /\ n = 0
Unchanged(a, b) == Render(a) = Render(b) /\ a.buf = b.buf /\ a.lz = b.lz /\ a.frozen = b.frozen /\ a.marker = b.marker
StepVerdict(w, d, r) ==
  IF r.st \notin {"ok", "incomplete", "nan", "overlap", "frozen"} THEN "unknown-status"
  ELSE IF r.st # "ok" /\ ~Unchanged(d, r.ds) THEN "rejected-word-changed-the-number"
  ELSE IF d.frozen /\ r.st = "ok" THEN "word-accepted-after-the-number-was-complete"
  ELSE IF ~IsDigits(Render(r.ds)) THEN "rendering-is-not-digits"
  ELSE IF r.st = "ok" /\ Len(Render(r.ds)) < Len(Render(d)) THEN "accepted-word-shrank-the-number"
  ELSE IF r.ds.marker # "none" /\ ~(IsFractionMk(r.ds.marker) \/ MarkerText(r.ds.marker) \in V!Markers[L]) THEN "unknown-marker"
  ELSE ""
Next == /\ n < MaxLen
        /\ \E w \in VocabOf(L) :
             LET r == Apply(L, w, ds) IN
             /\ Assert(StepVerdict(w, ds, r) = "", <<"S2 step property violated", StepVerdict(w, ds, r), L, w, ds, r>>)
             /\ ds' = r.ds /\ n' = n + 1
Spec == Init /\ [][Next]_<<ds, n>>
DigitsInv == IsDigits(Render(ds))
=============================================================================
