SPECIFICATION Spec
CONSTANTS
  Bug_ShiftNonAtomic = FALSE
  Bug_PushIgnoresFrozen = FALSE
  Bug_PositionFreeUnderflow = FALSE
  L = "en"
  Alphabet = {"one", "apples", "twenty", ", "}
  MaxLen = 5
  Thrs = {"0", "10"}
  Hints = FALSE
INVARIANT Incremental
INVARIANT WellFormed
INVARIANT Policy
INVARIANT Revalidates
INVARIANT ValidatedIsOne
INVARIANT IterEqBatch
INVARIANT LookaheadOK
INVARIANT HintsHonoured
INVARIANT StreamRewriteOK
CONSTANT Bug_HoldNotCleared <- TrueValue
CHECK_DEADLOCK FALSE
