------------------------------ MODULE Lang_de ------------------------------
(***************************************************************************)
(* S2 / S2' for German (src/lang/de/mod.rs), string-exact: declension      *)
(* lemmatizer, compound words cut by the leftmost-longest WordSplitter and *)
(* interpreted as an all-or-nothing group, the TENS exclusion flag,        *)
(* put_digit_at for the tens, eins freezes the number.                     *)
(***************************************************************************)
EXTENDS LangCommon

Lemmatize(w) == IF EndsWith(w, "tes") \/ EndsWith(w, "ter") \/ EndsWith(w, "ten") \/ EndsWith(w, "tem")
                THEN TrimEndSet(w, {"s", "n", "m", "r"}) ELSE w
Patterns == {"billion", "billionste", "milliarden", "milliarde", "milliardste", "millionen", "million", "millionste",
             "tausend", "tausendste", "hundert", "hundertste", "und"}
MorphMarker(w) == IF EndsWith(w, "te") THEN OrdMk(".") ELSE "none"

TENS == 1
Units == ("ein" :> "1") @@ ("eins" :> "1") @@ ("erste" :> "1") @@ ("zwei" :> "2") @@ ("zwo" :> "2") @@ ("zweite" :> "2")
      @@ ("drei" :> "3") @@ ("dritte" :> "3") @@ ("vier" :> "4") @@ ("vierte" :> "4") @@ ("fünf" :> "5") @@ ("fünfte" :> "5")
      @@ ("sechs" :> "6") @@ ("sechste" :> "6") @@ ("sieben" :> "7") @@ ("siebte" :> "7") @@ ("acht" :> "8") @@ ("achte" :> "8")
      @@ ("neun" :> "9") @@ ("neunte" :> "9")
Teens == ("zehn" :> "10") @@ ("zehnte" :> "10") @@ ("elf" :> "11") @@ ("elfte" :> "11") @@ ("zwölf" :> "12") @@ ("zwölfte" :> "12")
      @@ ("dreizehn" :> "13") @@ ("dreizehnte" :> "13") @@ ("vierzehn" :> "14") @@ ("vierzehnte" :> "14")
      @@ ("fünfzehn" :> "15") @@ ("fünfzehnte" :> "15") @@ ("sechzehn" :> "16") @@ ("sechzehnte" :> "16")
      @@ ("siebzehn" :> "17") @@ ("siebzehnte" :> "17") @@ ("achtzehn" :> "18") @@ ("achtzehnte" :> "18")
      @@ ("neunzehn" :> "19") @@ ("neunzehnte" :> "19")
Tens == ("zwanzig" :> "2") @@ ("zwanzigste" :> "2") @@ ("dreißig" :> "3") @@ ("dreissig" :> "3") @@ ("dreißigste" :> "3") @@ ("dreissigste" :> "3")
     @@ ("vierzig" :> "4") @@ ("vierzigste" :> "4") @@ ("fünfzig" :> "5") @@ ("fünfzigste" :> "5") @@ ("sechzig" :> "6") @@ ("sechzigste" :> "6")
     @@ ("siebzig" :> "7") @@ ("siebzigste" :> "7") @@ ("achtzig" :> "8") @@ ("achtzigste" :> "8") @@ ("neunzig" :> "9") @@ ("neunzigste" :> "9")

RECURSIVE Apply(_, _)
ExecGroup(toks) ==
  LET RECURSIVE go(_, _, _)
      go(i, b, inc) == IF i > Len(toks) THEN (IF inc THEN R("incomplete", b) ELSE R("ok", b))
                       ELSE LET r == Apply(toks[i], b) IN
                            IF r.st = "ok" THEN go(i + 1, r.ds, FALSE)
                            ELSE IF r.st = "incomplete" THEN go(i + 1, r.ds, TRUE)
                            ELSE R(r.st, b)
  IN go(1, New, FALSE)

Apply(w, b) ==
  LET l == Lemmatize(w) IN
  IF IsSplittable(Patterns, l) THEN
     LET g == ExecGroup(Split(Patterns, l)) IN
     IF g.st = "incomplete" THEN R("nan", b)         \* repaired: a compound ending on a dangling conjunction is not a number
     ELSE IF g.st # "ok" THEN R(g.st, b)
     ELSE IF DLen(g.ds) > 3 /\ DLen(g.ds) <= 6 /\ ~IsRangeFree(b, 3, 5) THEN R("overlap", b)
     ELSE LET r == Put(b, g.ds.buf) IN
          IF r.st # "ok" THEN R(r.st, b)
          ELSE IF IsOrdinal(g.ds) THEN R("ok", [r.ds EXCEPT !.marker = g.ds.marker, !.frozen = TRUE]) ELSE r
  ELSE
  LET blocked == b.flags % 2 = 1
      pk == Peek(b, 2)
      X(r, blk) == [st |-> r.st, ds |-> r.ds, block |-> blk]
      res ==
        IF l = "null" THEN X(Put(b, "0"), 0)
        ELSE IF l \in DOMAIN Units /\ IsFree(b, 2) THEN X(Put(b, Units[l]), TENS)
        ELSE IF l \in DOMAIN Teens THEN X(Put(b, Teens[l]), 0)
        ELSE IF l \in DOMAIN Tens /\ ~blocked THEN X(PutDigitAt(b, Tens[l], 1), 0)
        ELSE IF l \in {"hundert", "hundertste"} THEN (IF Len(pk) = 1 \/ BytesLess(pk, "20") THEN X(Shift(b, 2), 0) ELSE X(R("overlap", b), 0))
        ELSE IF l \in {"tausend", "tausendste"} /\ IsRangeFree(b, 3, 5) THEN X(Shift(b, 3), 0)
        ELSE IF l \in {"million", "millionen", "millionste"} /\ IsRangeFree(b, 6, 8) THEN X(Shift(b, 6), 0)
        ELSE IF l \in {"milliarde", "milliarden", "milliardste"} THEN X(Shift(b, 9), 0)
        ELSE IF l \in {"billion", "billionste"} THEN X(Shift(b, 12), 0)
        ELSE IF l = "und" /\ (IsEmpty(b) \/ ~IsNull(b)) THEN X(R("incomplete", b), 0)     \* repaired: not after spoken zeroes only
        ELSE X(R("nan", b), 0)
  IN IF res.st = "ok"
     THEN LET d1 == [res.ds EXCEPT !.flags = res.block]
              d2 == IF EndsWith(l, "te") THEN [d1 EXCEPT !.marker = MorphMarker(l), !.frozen = TRUE] ELSE d1
          IN R("ok", IF l = "eins" THEN [d2 EXCEPT !.frozen = TRUE] ELSE d2)
     ELSE R(res.st, [res.ds EXCEPT !.flags = 0])

DecDigits == ("null" :> "0") @@ ("eins" :> "1") @@ ("zwei" :> "2") @@ ("drei" :> "3") @@ ("vier" :> "4") @@ ("fünf" :> "5")
          @@ ("sechs" :> "6") @@ ("sieben" :> "7") @@ ("acht" :> "8") @@ ("neun" :> "9")
ApplyDecimal(w, b) == IF w \in DOMAIN DecDigits THEN Push(b, DecDigits[w]) ELSE R("nan", b)
IsDecimalSep(w) == w = "komma"
DecimalMark == ","
Annotate(toks) == {}

Vocabulary == DOMAIN Units \cup DOMAIN Teens \cup DOMAIN Tens \cup Patterns \cup
              {"null", "komma", "erster", "ersten", "erstes", "erstem", "zweiter", "dritten", "siebtes", "zwanzigster", "hundertster", "tausendsten",
               "einundzwanzig", "zweiundzwanzigste", "dreiundfünfzig", "zweihundert", "einhundert", "hunderteins", "eintausend", "zweitausenddreihundert",
               "dreihunderttausend", "neunzehnhundertdreiundsiebzig", "einemillion", "zweimillionen", "hundertste", "einundzwanzigste", "einundzwanzigster",
               "stunden", "kunde", "und", "katzen", "der"}
=============================================================================
