-------------------------------- MODULE Num --------------------------------
(***************************************************************************)
(* Decimal strings.  TLC integers are 32-bit and the properties go to      *)
(* 10^12, so numbers are digit strings; thresholds and f64 values cross the *)
(* JSON boundary as decimal strings ("nan", "inf", "-inf" for non-finite).  *)
(***************************************************************************)
EXTENDS Naturals, Sequences
LOCAL Ch(s, i) == SubSeq(s, i, i)

RECURSIVE StripLeadingZeros(_)
StripLeadingZeros(s) == IF Len(s) > 1 /\ Ch(s, 1) = "0" /\ Ch(s, 2) # "." THEN StripLeadingZeros(SubSeq(s, 2, Len(s))) ELSE s
RECURSIVE StripTrailingZeros(_)
StripTrailingZeros(s) == IF s # "" /\ Ch(s, Len(s)) = "0" THEN StripTrailingZeros(SubSeq(s, 1, Len(s) - 1)) ELSE s
DotPos(s) == IF \E i \in 1..Len(s) : Ch(s, i) = "." THEN CHOOSE i \in 1..Len(s) : Ch(s, i) = "." ELSE 0
IntPart(s)  == LET d == DotPos(s) IN StripLeadingZeros(IF d = 0 THEN s ELSE IF d = 1 THEN "0" ELSE SubSeq(s, 1, d - 1))
FracPart(s) == LET d == DotPos(s) IN IF d = 0 THEN "" ELSE StripTrailingZeros(SubSeq(s, d + 1, Len(s)))
\* canonical form of a non-negative decimal string: no leading zeros, no trailing fractional zeros
Canon(s) == LET i == IntPart(s) f == FracPart(s) IN IF f = "" THEN i ELSE i \o "." \o f

DigitVal(c) == CASE c = "0" -> 0 [] c = "1" -> 1 [] c = "2" -> 2 [] c = "3" -> 3 [] c = "4" -> 4
                 [] c = "5" -> 5 [] c = "6" -> 6 [] c = "7" -> 7 [] c = "8" -> 8 [] c = "9" -> 9
RECURSIVE LexLess(_, _)
LexLess(a, b) ==   \* digit strings compared left to right, shorter one padded with zeros on the right
  IF a = "" /\ b = "" THEN FALSE
  ELSE LET x == IF a = "" THEN 0 ELSE DigitVal(Ch(a, 1))
           y == IF b = "" THEN 0 ELSE DigitVal(Ch(b, 1))
       IN IF x < y THEN TRUE ELSE IF x > y THEN FALSE
          ELSE LexLess(IF a = "" THEN "" ELSE SubSeq(a, 2, Len(a)), IF b = "" THEN "" ELSE SubSeq(b, 2, Len(b)))
\* a < b for non-negative decimal strings
DecLess(a, b) ==
  LET ia == IntPart(a) ib == IntPart(b) IN
  IF Len(ia) # Len(ib) THEN Len(ia) < Len(ib)
  ELSE IF ia # ib THEN LexLess(ia, ib)
  ELSE LexLess(FracPart(a), FracPart(b))
\* value < threshold as f64 comparison (value >= 0 finite; threshold any f64 printed by Rust)
ValueBelow(v, thr) ==
  IF thr = "nan" \/ thr = "-inf" THEN FALSE
  ELSE IF thr = "inf" THEN TRUE
  ELSE IF Ch(thr, 1) = "-" THEN FALSE
  ELSE DecLess(v, thr)

\* n (a small natural) as a decimal string
RECURSIVE NatStr(_)
NatStr(n) == IF n < 10 THEN Ch("0123456789", n + 1) ELSE NatStr(n \div 10) \o Ch("0123456789", (n % 10) + 1)
Pad3(g) == IF g < 10 THEN "00" \o NatStr(g) ELSE IF g < 100 THEN "0" \o NatStr(g) ELSE NatStr(g)
\* gs = <<units group, thousands group, millions group, billions group>>, each 0..999
Dec(gs) == IF gs[4] # 0 THEN NatStr(gs[4]) \o Pad3(gs[3]) \o Pad3(gs[2]) \o Pad3(gs[1])
           ELSE IF gs[3] # 0 THEN NatStr(gs[3]) \o Pad3(gs[2]) \o Pad3(gs[1])
           ELSE IF gs[2] # 0 THEN NatStr(gs[2]) \o Pad3(gs[1])
           ELSE NatStr(gs[1])
=============================================================================
