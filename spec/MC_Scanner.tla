----------------------------- MODULE MC_Scanner -----------------------------
(***************************************************************************)
(* Bounded exhaustive exploration of S4/S5 driven token by token: every    *)
(* stream up to MaxLen over the alphabet, every placement of the two token *)
(* hints, all thresholds of Thrs in lockstep.  The invariants are the      *)
(* scanner-level properties -- the SAME predicates of Props.tla that       *)
(* judge the observations of the real code:                                *)
(*   C06 well-formed occurrences, C07 span re-validation, C09 declarative  *)
(*   lone-number policy, C15 iterator = batch, bounded look-ahead, hints,  *)
(*   C02 spliceable occurrence lists and the token-wise stream rewrite.    *)
(***************************************************************************)
EXTENDS Scanner, TLC
P == INSTANCE Props

CONSTANTS L, Alphabet, MaxLen, Thrs, Hints

VARIABLES stream, sc
vars == <<stream, sc>>

Linking == P!Linking[L] \cup {P!ConjWord[L]}   \* what the P layer calls linking (see Props, C09)
CodeLinking == P!Linking[L]                       \* the code's INSIGNIFICANT set

Init == stream = <<>> /\ sc = [t \in Thrs |-> NewScanner]
Next == /\ Len(stream) < MaxLen
        /\ \E w \in Alphabet, sepf \in (IF Hints THEN BOOLEAN ELSE {FALSE}), nanf \in (IF Hints THEN BOOLEAN ELSE {FALSE}) :
             LET tok == [text |-> w, lower |-> Lower(w), sep |-> sepf, nan |-> nanf] IN
             /\ (sepf \/ nanf) => ~IsSkip(tok)          \* hints sit on significant tokens only (domain of C15)
             /\ ~(sepf /\ nanf)
             /\ stream' = Append(stream, tok)
             /\ sc' = [t \in Thrs |-> PushTok(L, sc[t], Len(stream), tok, t, CodeLinking)]
Spec == Init /\ [][Next]_vars

Texts == [i \in 1..Len(stream) |-> stream[i].text]
Occs(t) == Finalize(L, sc[t], t).tracker.matches
AsObs(t) == [tk |-> "ok", toks |-> Texts, occs |-> Occs(t)]

\* stepping = folding (the batch operator used by the validators is the same machine)
Incremental == \A t \in Thrs : Occs(t) = Batch(L, stream, t, CodeLinking)
\* C06 / C02
WellFormed == \A t \in Thrs : P!VerdictC06(L, AsObs(t)) = "" /\ P!SpansOK(Occs(t), Len(stream))
\* C09 (the dangling-separator reading is the recorded known finding)
Policy == \A t \in Thrs : P!VerdictC09(L, Texts, Occs("0"), Occs(t), t) \in {"", "dangling-separator-not-a-breaker"}
\* C07 (a): the words of a non-decimal span validate alone to the same text
SpanWords(o) == SelectSeq(SubSeq([i \in 1..Len(stream) |-> stream[i].lower], o.s + 1, o.e), LAMBDA w : ~(w = "-" \/ IsWsOnly(w)))
Revalidates == \A t \in Thrs : \A k \in 1..Len(Occs(t)) :
   LET o == Occs(t)[k] IN
   P!IsDecimalText(L, o.t) \/ (LET g == ExecGroup(L, SpanWords(o)) IN g.st = "ok" /\ Format(L, g.ds).text = o.t)
\* C07 (b): a phrase the validator accepts is scanned (threshold 0, no hints) as exactly that one number
PlainWords == \A i \in 1..Len(stream) : ~stream[i].sep /\ ~stream[i].nan
ValidatedIsOne ==
  LET ws == SelectSeq([i \in 1..Len(stream) |-> stream[i].lower], LAMBDA w : ~IsWsOnly(w))
      g == ExecGroup(L, ws) IN
  (PlainWords /\ ws # <<>> /\ g.st = "ok" /\ ~IsEmpty(g.ds)) => (Len(Occs("0")) = 1 /\ Occs("0")[1].t = Format(L, g.ds).text)
\* C15: lazy = batch, bounded look-ahead, hints
IterOccs(t) == LET it == Iter(L, stream, t, CodeLinking) IN [k \in 1..Len(it) |-> it[k].occ]
IterEqBatch == \A t \in Thrs : IterOccs(t) = Occs(t)
LookaheadOK == \A t \in Thrs :
  LET it == Iter(L, stream, t, CodeLinking)  o0 == Occs("0") IN
  \A k \in 1..Len(it) :
     LET J == {j \in 1..Len(o0) : o0[j].s = it[k].occ.s} IN
     J # {} /\ LET j == CHOOSE x \in J : TRUE
                   bound == IF j + 2 <= Len(o0) THEN o0[j + 2].s + 1 ELSE Len(stream)
               IN it[k].pulled <= bound
HintsHonoured == \A t \in Thrs : \A k \in 1..Len(Occs(t)) : LET o == Occs(t)[k] IN
   /\ \A i \in (o.s + 1)..o.e : ~stream[i].nan
   /\ \A i \in (o.s + 2)..o.e : ~stream[i].sep
\* C02, token-wise: every input token is kept as is or handed exactly once, in order, to the constructor of the one occurrence covering it
StreamRewriteOK == \A t \in Thrs :
   P!VerdictC02s([toks |-> [i \in 1..Len(stream) |-> [t |-> stream[i].text]]],
                 [stream |-> [st |-> "ok", v |-> ReplaceInStream(L, stream, t, CodeLinking)], batch |-> [st |-> "ok", v |-> Occs(t)]]) = ""
Bound == TRUE
=============================================================================
