------------------------------- MODULE MC_Api -------------------------------
(***************************************************************************)
(* Whole-library model checked against the two-run properties, over every  *)
(* text made of up to MaxWords words of a small alphabet:                  *)
(*  C10 context independence : Replace(A S B) = Replace(A) S Replace(B)    *)
(*  C11 letter case          : same occurrences for UPPER / aLtErNaTe       *)
(*  C17 whitespace           : same occurrence texts for other blanks       *)
(*  C18 English o            : o read like its zero / ordinary-word twin    *)
(*  C02 locality             : no number => text unchanged                  *)
(* One state per text (Init enumerates them, Next adds a word).            *)
(***************************************************************************)
EXTENDS Api, TLC
CONSTANTS L, Alphabet, MaxWords, Thrs, StrongSeps
VARIABLES ws       \* the words of the text built so far
Text(w) == JoinWith(w, " ")
Init == ws = <<>>
Next == Len(ws) < MaxWords /\ \E w \in Alphabet : ws' = Append(ws, w)
Spec == Init /\ [][Next]_ws

Occs(t, thr) == FindInText(L, t, thr)
OccKey(o) == <<o.s, o.e, o.t, o.v, o.o>>
Keys(os) == [k \in 1..Len(os) |-> OccKey(os[k])]
TextsOf(os) == [k \in 1..Len(os) |-> <<os[k].t, os[k].v, os[k].o>>]

CaseOK == \A thr \in Thrs : LET t == Text(ws) IN
   /\ Keys(Occs(Upper(t), thr)) = Keys(Occs(t, thr))
   /\ Keys(Occs(Alternate(t, TRUE), thr)) = Keys(Occs(t, thr))
   /\ Text2Digits(L, Upper(t)) = Text2Digits(L, t)
RECURSIVE ReplBlank(_, _)
ReplBlank(s, w) == IF s = "" THEN "" ELSE (IF Ch(s, 1) = " " THEN w ELSE Ch(s, 1)) \o ReplBlank(SubSeq(s, 2, Len(s)), w)
WsOK == \A thr \in Thrs : LET t == Text(ws) IN
   /\ TextsOf(Occs(ReplBlank(t, UniWs[1]), thr)) = TextsOf(Occs(t, thr))
   /\ TextsOf(Occs(ReplBlank(t, "\t\n"), thr)) = TextsOf(Occs(t, thr))
   /\ TextsOf(Occs(" " \o t \o UniWs[12], thr)) = TextsOf(Occs(t, thr))
   /\ Text2Digits(L, ReplBlank(t, UniWs[18])) = Text2Digits(L, t)
\* every split point of the text is a context boundary when a strong separator is put there
ContextOK == \A thr \in Thrs : \A k \in 0..Len(ws) : \A s \in StrongSeps :
   LET a == Text(SubSeq(ws, 1, k))  b == Text(SubSeq(ws, k + 1, Len(ws))) IN
   ReplaceInText(L, a \o s \o b, thr) = ReplaceInText(L, a, thr) \o s \o ReplaceInText(L, b, thr)
NoNumberNoChange == \A thr \in Thrs : LET t == Text(ws) IN Occs(t, thr) = <<>> => ReplaceInText(L, t, thr) = t
\* C18 (only meaningful for L = "en")
IsNumW(w) == Apply(L, Lower(w), New).st = "ok"
Twin == [i \in 1..Len(ws) |-> IF ws[i] # "o" THEN ws[i]
          ELSE IF (i > 1 /\ IsNumW(ws[i - 1])) \/ (i < Len(ws) /\ IsNumW(ws[i + 1])) THEN "zero" ELSE "xq"]
OTwinOK == L = "en" => \A thr \in Thrs : Keys(Occs(Text(ws), thr)) = Keys(Occs(Text(Twin), thr))
=============================================================================
