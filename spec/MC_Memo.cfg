SPECIFICATION Spec
CONSTANTS
  Threads = {1, 2, 3}
  Args = {"a", "b"}
  MaxCalls = 5
  Bug_SharedScratch = FALSE
INVARIANT NoOutput
CHECK_DEADLOCK FALSE
