SPECIFICATION Spec
CONSTANTS
  Bug_ShiftNonAtomic = FALSE
  Bug_PushIgnoresFrozen = FALSE
  Bug_PositionFreeUnderflow = FALSE
  L = "it"
  RLow = {0, 1, 2, 7, 10, 11, 13, 16, 19, 20, 21, 40, 71, 80, 81, 88, 99, 100, 101, 110, 119, 181, 200, 500, 999}
  RHigh = {0, 1, 2, 21, 100, 999}
  MaxZeros = 2
INVARIANT NeverSplit
INVARIANT RoundTrip
CHECK_DEADLOCK FALSE
