SPECIFICATION Spec
CONSTANTS
  Bug_ShiftNonAtomic = FALSE
  Bug_PushIgnoresFrozen = FALSE
  Bug_PositionFreeUnderflow = FALSE
  L = "nl"
  Alphabet = {"twee", "en", "twintig"}
  MaxLen = 3
  Thrs = {"0", "3"}
  Hints = TRUE
INVARIANT Incremental
INVARIANT WellFormed
INVARIANT Policy
INVARIANT Revalidates
INVARIANT ValidatedIsOne
INVARIANT IterEqBatch
INVARIANT LookaheadOK
INVARIANT HintsHonoured
INVARIANT StreamRewriteOK
CONSTANT Bug_RetryIncompleteBreaks <- TrueValue
CHECK_DEADLOCK FALSE
