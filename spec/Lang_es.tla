------------------------------ MODULE Lang_es ------------------------------
(***************************************************************************)
(* S2 for Spanish (src/lang/es/mod.rs), string-exact: lemmatizer, marker   *)
(* agreement (a word whose morphological marker differs from the builder's *)
(* starts a new number, fractions excepted), vocabulary tables, fractions  *)
(* in -avo (frozen, formatted 1/n).                                        *)
(***************************************************************************)
EXTENDS LangCommon

Lemmatize(w) ==
  IF (EndsWith(w, "os") /\ w # "dos") \/ EndsWith(w, "as") THEN TrimEndCh(w, "s")
  ELSE IF EndsWith(w, "es") /\ w # "tres" THEN TrimEndStr(w, "es")
  ELSE w

MorphMarker(w) ==
  LET sing == TrimStartStr(Lemmatize(w), "decimo")
      plur == EndsWith(w, "s")
      M == {"primero", "segundo", "tercero", "cuarto", "quinto", "sexto", "séptimo", "octavo", "ctavo", "noveno"}
      F == {"primera", "segunda", "tercera", "cuarta", "quinta", "sexta", "séptima", "octava", "ctava", "novena"}
  IN IF sing = "primer" THEN OrdMk(".ᵉʳ")
     ELSE IF sing \in M THEN OrdMk(IF plur THEN "ᵒˢ" ELSE "º")
     ELSE IF sing \in F THEN OrdMk(IF plur THEN "ᵃˢ" ELSE "ª")
     ELSE IF EndsWith(sing, "imo") THEN OrdMk(IF plur THEN "ᵒˢ" ELSE "º")
     ELSE IF EndsWith(sing, "ima") THEN OrdMk(IF plur THEN "ᵃˢ" ELSE "ª")
     ELSE IF EndsWith(sing, "avo") THEN FracMk("avo")
     ELSE "none"

\* words accepted only when the two last digits are neither 10 nor 20
Guarded == ("un" :> "1") @@ ("uno" :> "1") @@ ("una" :> "1") @@ ("dos" :> "2") @@ ("tres" :> "3") @@ ("cuatro" :> "4")
        @@ ("cinco" :> "5") @@ ("seis" :> "6") @@ ("siete" :> "7") @@ ("ocho" :> "8") @@ ("nueve" :> "9")
Plain ==
     ("primer" :> "1") @@ ("primero" :> "1") @@ ("primera" :> "1") @@ ("segunda" :> "2")
  @@ ("tercer" :> "3") @@ ("tercero" :> "3") @@ ("tercera" :> "3") @@ ("cuarto" :> "4") @@ ("cuarta" :> "4")
  @@ ("quinto" :> "5") @@ ("quinta" :> "5") @@ ("sexto" :> "6") @@ ("sexta" :> "6") @@ ("séptimo" :> "7") @@ ("séptima" :> "7")
  @@ ("octavo" :> "8") @@ ("octava" :> "8") @@ ("noveno" :> "9") @@ ("novena" :> "9")
  @@ ("diez" :> "10") @@ ("décimo" :> "10") @@ ("décima" :> "10")
  @@ ("once" :> "11") @@ ("undécimo" :> "11") @@ ("undécima" :> "11") @@ ("decimoprimero" :> "11") @@ ("decimoprimera" :> "11") @@ ("onceavo" :> "11")
  @@ ("doce" :> "12") @@ ("duodécimo" :> "12") @@ ("duodécima" :> "12") @@ ("decimosegundo" :> "12") @@ ("decimosegunda" :> "12") @@ ("doceavo" :> "12")
  @@ ("trece" :> "13") @@ ("decimotercero" :> "13") @@ ("decimotercera" :> "13") @@ ("treceavo" :> "13")
  @@ ("catorce" :> "14") @@ ("decimocuarto" :> "14") @@ ("decimocuarta" :> "14") @@ ("catorceavo" :> "14")
  @@ ("quince" :> "15") @@ ("decimoquinto" :> "15") @@ ("decimoquinta" :> "15") @@ ("quinceavo" :> "15")
  @@ ("dieciseis" :> "16") @@ ("dieciséis" :> "16") @@ ("decimosexto" :> "16") @@ ("decimosexta" :> "16") @@ ("deciseisavo" :> "16")
  @@ ("diecisiete" :> "17") @@ ("decimoséptimo" :> "17") @@ ("decimoséptima" :> "17") @@ ("diecisieteavo" :> "17")
  @@ ("dieciocho" :> "18") @@ ("decimoctavo" :> "18") @@ ("decimoctava" :> "18") @@ ("dieciochoavo" :> "18")
  @@ ("diecinueve" :> "19") @@ ("decimonoveno" :> "19") @@ ("decimonovena" :> "19") @@ ("decinueveavo" :> "19")
  @@ ("veinte" :> "20") @@ ("vigésimo" :> "20") @@ ("vigésima" :> "20") @@ ("veintavo" :> "20") @@ ("veinteavo" :> "20")
  @@ ("veintiuno" :> "21") @@ ("veintiuna" :> "21") @@ ("veintiún" :> "21") @@ ("veintiunoavo" :> "21")
  @@ ("veintidós" :> "22") @@ ("veintidos" :> "22") @@ ("veintidosavo" :> "22")
  @@ ("veintitrés" :> "23") @@ ("veintitres" :> "23") @@ ("veintitresavo" :> "23")
  @@ ("veinticuatro" :> "24") @@ ("veinticuatroavo" :> "24") @@ ("veinticinco" :> "25") @@ ("veinticincoavo" :> "25")
  @@ ("veintiseis" :> "26") @@ ("veintiséis" :> "26") @@ ("veintiseisavo" :> "26") @@ ("veintisiete" :> "27") @@ ("veintisieteavo" :> "27")
  @@ ("veintiocho" :> "28") @@ ("veintiochoavo" :> "28") @@ ("veintinueve" :> "29") @@ ("veintinueveavo" :> "29")
  @@ ("treinta" :> "30") @@ ("trigésimo" :> "30") @@ ("trigésima" :> "30") @@ ("treintavo" :> "30")
  @@ ("cuarenta" :> "40") @@ ("cuadragésimo" :> "40") @@ ("cuadragésima" :> "40") @@ ("cuarentavo" :> "40")
  @@ ("cincuenta" :> "50") @@ ("quincuagésimo" :> "50") @@ ("quincuagésima" :> "50") @@ ("cincuentavo" :> "50")
  @@ ("sesenta" :> "60") @@ ("sexagésimo" :> "60") @@ ("sexagésima" :> "60") @@ ("sesentavo" :> "60")
  @@ ("setenta" :> "70") @@ ("septuagésimo" :> "70") @@ ("septuagésima" :> "70") @@ ("setentavo" :> "70")
  @@ ("ochenta" :> "80") @@ ("octogésimo" :> "80") @@ ("octogésima" :> "80") @@ ("ochentavo" :> "80")
  @@ ("noventa" :> "90") @@ ("nonagésimo" :> "90") @@ ("nonagésima" :> "90") @@ ("noventavo" :> "90")
  @@ ("cien" :> "100") @@ ("ciento" :> "100") @@ ("cienta" :> "100") @@ ("centésimo" :> "100") @@ ("centésima" :> "100") @@ ("centavo" :> "100")
  @@ ("dosciento" :> "200") @@ ("doscienta" :> "200") @@ ("ducentésimo" :> "200") @@ ("ducentésima" :> "200")
  @@ ("tresciento" :> "300") @@ ("trescienta" :> "300") @@ ("tricentésimo" :> "300") @@ ("tricentésima" :> "300")
  @@ ("cuatrociento" :> "400") @@ ("cuatrocienta" :> "400") @@ ("cuadringentésimo" :> "400") @@ ("cuadringentésima" :> "400")
  @@ ("quadringentésimo" :> "400") @@ ("quadringentésima" :> "400")
  @@ ("quiniento" :> "500") @@ ("quinienta" :> "500") @@ ("quingentésimo" :> "500") @@ ("quingentésima" :> "500")
  @@ ("seisciento" :> "600") @@ ("seiscienta" :> "600") @@ ("sexcentésimo" :> "600") @@ ("sexcentésima" :> "600")
  @@ ("seteciento" :> "700") @@ ("setecienta" :> "700") @@ ("septingentésimo" :> "700") @@ ("septingentésima" :> "700")
  @@ ("ochociento" :> "800") @@ ("ochocienta" :> "800") @@ ("octingentésimo" :> "800") @@ ("octingentésima" :> "800")
  @@ ("noveciento" :> "900") @@ ("novecienta" :> "900") @@ ("noningentésimo" :> "900") @@ ("noningentésima" :> "900")

Apply(w, b) ==
  LET mk == MorphMarker(w) IN
  IF ~IsEmpty(b) /\ mk # b.marker /\ ~IsFractionMk(mk) THEN R("overlap", b)
  ELSE
  LET l  == Lemmatize(w)
      pk == Peek(b, 2)
      status ==
        IF l = "cero" THEN Put(b, "0")
        ELSE IF l \in DOMAIN Guarded /\ pk # "10" /\ pk # "20" THEN Put(b, Guarded[l])
        ELSE IF l = "segundo" /\ IsOrdinal(b) THEN Put(b, "2")
        ELSE IF l \in DOMAIN Plain THEN Put(b, Plain[l])
        ELSE IF l \in {"mil", "milésimo", "milésima"} /\ IsRangeFree(b, 3, 5) THEN (IF pk = "1" THEN R("overlap", b) ELSE Shift(b, 3))
        ELSE IF l \in {"millon", "millón", "millonésimo", "millonésima"} /\ IsRangeFree(b, 6, 8) THEN Shift(b, 6)
        ELSE IF l = "y" /\ DLen(b) >= 2 THEN R("incomplete", b)
        ELSE R("nan", b)
  IN IF status.st = "ok"
     THEN R("ok", [status.ds EXCEPT !.marker = mk, !.frozen = IF IsFractionMk(mk) THEN TRUE ELSE @])
     ELSE status

ExecGroup(toks) ==
  LET RECURSIVE go(_, _, _)
      go(i, b, inc) == IF i > Len(toks) THEN (IF inc THEN R("incomplete", b) ELSE R("ok", b))
                       ELSE LET r == Apply(toks[i], b) IN
                            IF r.st = "ok" THEN go(i + 1, r.ds, FALSE)
                            ELSE IF r.st = "incomplete" THEN go(i + 1, r.ds, TRUE)
                            ELSE R(r.st, b)
  IN go(1, New, FALSE)
ApplyDecimal(w, b) == Apply(w, b)
IsDecimalSep(w) == w = "coma"
DecimalMark == ","
Annotate(toks) == {}

Vocabulary == DOMAIN Guarded \cup DOMAIN Plain \cup {"cero", "segundo", "mil", "milésimo", "milésima", "millon", "millón", "millonésimo", "millonésima",
               "y", "coma", "millones", "doscientos", "doscientas", "quinientos", "novecientas", "primeros", "primeras", "segundos", "segundas",
               "terceros", "décimos", "vigésimas", "centésimos", "milésimos", "doceavos", "unos", "unas", "miles", "gatos", "el"}
=============================================================================
