SPECIFICATION Spec
CONSTANTS
  Bug_ShiftNonAtomic = FALSE
  Bug_PushIgnoresFrozen = FALSE
  Bug_PositionFreeUnderflow = FALSE
  L = "it"
  Alphabet = {"zero", "uno", "venti", "cento", "mila", "e", "virgola", "terzo", "ventitré", "gatti", "poi"}
  MaxWords = 3
  Thrs = {"0", "10"}
  StrongSeps = {" gatti neri dormono. "}
INVARIANT CaseOK
INVARIANT WsOK
INVARIANT ContextOK
INVARIANT NoNumberNoChange
CHECK_DEADLOCK FALSE
