----------------------------- MODULE MC_Tokenizer -----------------------------
(***************************************************************************)
(* C02 / C03 / C17 at model level: every character string up to MaxLen     *)
(* over one representative of each character class, fed to the tokenizer   *)
(* one character per step.  Invariants: the tokens concatenate to the      *)
(* source (lossless), no token is empty, a word token starts with an       *)
(* alphanumeric and holds only word characters, a separator token holds no *)
(* alphanumeric, word and separator tokens alternate... and the step       *)
(* machine agrees with the operator Tokenize used by the validators.       *)
(***************************************************************************)
EXTENDS Tokenizer, TLC
CONSTANTS Alphabet, MaxLen
VARIABLES src, st
Init == src = "" /\ st = TInit
Next == Len(src) < MaxLen /\ \E c \in Alphabet : src' = src \o c /\ st' = TStep(st, c)
Spec == Init /\ [][Next]_<<src, st>>
Toks == TFinish(st)
Lossless == Concat(Toks) = src
NonEmpty == \A k \in 1..Len(Toks) : Toks[k] # ""
WellClassed == \A k \in 1..Len(Toks) :
   IF IsAlnum(Ch(Toks[k], 1)) THEN AllChars(IsWordChar, Toks[k]) ELSE ~HasAlnum(Toks[k])
NoTwoSeparators == \A k \in 1..(Len(Toks) - 1) : IsAlnum(Ch(Toks[k], 1)) \/ IsAlnum(Ch(Toks[k + 1], 1))
SameAsOperator == Toks = Tokenize(src)
=============================================================================
