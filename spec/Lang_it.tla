------------------------------ MODULE Lang_it ------------------------------
(***************************************************************************)
(* S2 / S2' for Italian (src/lang/it/mod.rs), string-exact: the lemmatizer *)
(* strips the final vowels of ordinals, compounds are cut by the           *)
(* WordSplitter, elided forms (ttanta, tto, ttantuno ...), the multiplier  *)
(* guards of the scale words (repaired: their own group, not the length).  *)
(***************************************************************************)
EXTENDS LangCommon

Lemmatize(w) ==
  LET c == TrimEndSet(w, {"o", "a", "e", "i"}) IN
  IF (c \in {"prim", "second", "terz", "quart", "quint", "sest", "settim", "ottav", "ttav", "non", "decim"} /\ w # "secondi")
     \/ EndsWith(c, "esim") \/ EndsWith(c, "decim")
  THEN c ELSE w
Patterns == {"miliardesim", "milionesim", "bilionesim", "cinquanta", "centesim", "millesim", "miliardo", "miliardi", "quaranta", "sessanta",
             "settanta", "milione", "milioni", "bilione", "bilioni", "ottanta", "novanta", "trenta", "ttanta", "cento", "mille", "venti", "mila"}
MorphMarker(w) ==
  IF Lemmatize(w) # w THEN (IF Ch(w, Len(w)) \in {"o", "i"} THEN OrdMk("º") ELSE IF Ch(w, Len(w)) \in {"a", "e"} THEN OrdMk("ª") ELSE "none")
  ELSE "none"
\* the multiplier in front of a scale word: the p rightmost digits without their leading zeroes
Multiplier(b, p) == LET pk == Peek(b, p) IN SubSeq(pk, LeadingZeroCount(pk) + 1, Len(pk))

Free2 == ("un" :> "1") @@ ("uno" :> "1") @@ ("una" :> "1") @@ ("unesim" :> "1") @@ ("otto" :> "8") @@ ("tto" :> "8") @@ ("ottesim" :> "8") @@ ("ttesim" :> "8")
Not10 == ("due" :> "2") @@ ("duesim" :> "2") @@ ("tre" :> "3") @@ ("tré" :> "3") @@ ("treesim" :> "3") @@ ("quattro" :> "4") @@ ("quattresim" :> "4")
      @@ ("cinque" :> "5") @@ ("cinquesim" :> "5") @@ ("sei" :> "6") @@ ("seiesim" :> "6") @@ ("sette" :> "7") @@ ("settesim" :> "7")
      @@ ("nove" :> "9") @@ ("novesim" :> "9")
WhenEmpty == ("prim" :> "1") @@ ("second" :> "2") @@ ("terz" :> "3") @@ ("quart" :> "4") @@ ("quint" :> "5") @@ ("sest" :> "6") @@ ("settim" :> "7") @@ ("ottav" :> "8")
Plain == ("dieci" :> "10") @@ ("decim" :> "10") @@ ("undici" :> "11") @@ ("undicesim" :> "11") @@ ("dodici" :> "12") @@ ("dodicesim" :> "12")
      @@ ("tredici" :> "13") @@ ("tredicesim" :> "13") @@ ("quattordici" :> "14") @@ ("quattordicesim" :> "14") @@ ("quindici" :> "15") @@ ("quindicesim" :> "15")
      @@ ("sedici" :> "16") @@ ("sedicesim" :> "16") @@ ("dedicesim" :> "16") @@ ("diciassette" :> "17") @@ ("diciassettesim" :> "17")
      @@ ("diciotto" :> "18") @@ ("diciottesim" :> "18") @@ ("diciannove" :> "19") @@ ("diciannovesim" :> "19")
      @@ ("venti" :> "20") @@ ("ventesim" :> "20") @@ ("ventuno" :> "21") @@ ("ventun" :> "21") @@ ("ventunesim" :> "21") @@ ("ventotto" :> "28") @@ ("ventottesim" :> "28")
      @@ ("trenta" :> "30") @@ ("trentesim" :> "30") @@ ("trentuno" :> "31") @@ ("trentun" :> "31") @@ ("trentunesim" :> "31") @@ ("trentotto" :> "38") @@ ("trentottesim" :> "38")
      @@ ("quaranta" :> "40") @@ ("quarantesim" :> "40") @@ ("quarantuno" :> "41") @@ ("quarantun" :> "41") @@ ("quarantunesim" :> "41") @@ ("quarantotto" :> "48") @@ ("quarantottesim" :> "48")
      @@ ("cinquanta" :> "50") @@ ("cinquantesim" :> "50") @@ ("cinquantuno" :> "51") @@ ("cinquantun" :> "51") @@ ("cinquantunesim" :> "51") @@ ("cinquantotto" :> "58") @@ ("cinquantottesim" :> "58")
      @@ ("sessanta" :> "60") @@ ("sessantesim" :> "60") @@ ("sessantuno" :> "61") @@ ("sessantun" :> "61") @@ ("sessantunesim" :> "61") @@ ("sessantotto" :> "68") @@ ("sessantottesim" :> "68")
      @@ ("settanta" :> "70") @@ ("settantesim" :> "70") @@ ("settantuno" :> "71") @@ ("settantun" :> "71") @@ ("settantunesim" :> "71") @@ ("settanunesim" :> "71") @@ ("settantotto" :> "78") @@ ("settantottesim" :> "78")
      @@ ("ottanta" :> "80") @@ ("ottantesim" :> "80") @@ ("ttanta" :> "80") @@ ("ttantesim" :> "80")
      @@ ("ottantuno" :> "81") @@ ("ottantun" :> "81") @@ ("ottantunesim" :> "81") @@ ("ttantuno" :> "81") @@ ("ttantun" :> "81") @@ ("ttantunesim" :> "81")
      @@ ("ottantotto" :> "88") @@ ("ottantottesim" :> "88") @@ ("ttantotto" :> "88") @@ ("ttantottesim" :> "88")
      @@ ("novanta" :> "90") @@ ("novantesim" :> "90") @@ ("novantuno" :> "91") @@ ("novantun" :> "91") @@ ("novantunesim" :> "91") @@ ("novantotto" :> "98") @@ ("novantottesim" :> "98")
      @@ ("centuno" :> "101") @@ ("centun" :> "101") @@ ("centunesimo" :> "101")

RECURSIVE Apply(_, _)
ExecGroup(toks) ==
  LET RECURSIVE go(_, _, _)
      go(i, b, inc) == IF i > Len(toks) THEN (IF inc THEN R("incomplete", b) ELSE R("ok", b))
                       ELSE LET r == Apply(toks[i], b) IN
                            IF r.st = "ok" THEN go(i + 1, r.ds, FALSE)
                            ELSE IF r.st = "incomplete" THEN go(i + 1, r.ds, TRUE)
                            ELSE R(r.st, b)
  IN go(1, New, FALSE)

\* "one singular scale word" (milione, miliardo, bilione): exactly one; plural: at least two; ordinal: anything but a spoken one
Scale(b, kind, p) ==
  LET m == Multiplier(b, p) IN
  IF kind = "sing" THEN (IF m # "1" THEN R("nan", b) ELSE Shift(b, p))
  ELSE IF kind = "ord" THEN (IF m = "1" THEN R("nan", b) ELSE Shift(b, p))
  ELSE (IF m = "" \/ m = "1" THEN R("nan", b) ELSE Shift(b, p))

Apply(w, b) ==
  LET l == Lemmatize(w) IN
  IF IsSplittable(Patterns, l) THEN
     LET g == ExecGroup(Split(Patterns, l)) IN
     IF g.st = "incomplete" THEN R("nan", b)         \* repaired: a compound ending on a dangling conjunction is not a number
     ELSE IF g.st # "ok" THEN R(g.st, b)
     ELSE IF DLen(g.ds) > 3 /\ DLen(g.ds) <= 6 /\ ~IsRangeFree(b, 3, 5) THEN R("overlap", b)
     ELSE LET r == Put(b, g.ds.buf)  mk == MorphMarker(w) IN
          IF r.st # "ok" THEN R(r.st, b)
          ELSE IF mk # "none" THEN R("ok", [r.ds EXCEPT !.marker = mk, !.frozen = TRUE]) ELSE r
  ELSE
  LET pk == Peek(b, 2)
      pk3 == Peek(b, 3)
      status ==
        IF l = "zero" THEN Put(b, "0")
        ELSE IF l \in DOMAIN Free2 /\ IsFree(b, 2) THEN Put(b, Free2[l])
        ELSE IF l \in DOMAIN WhenEmpty /\ IsEmpty(b) THEN Put(b, WhenEmpty[l])
        ELSE IF l \in DOMAIN Not10 /\ pk # "10" THEN Put(b, Not10[l])
        ELSE IF l = "non" /\ IsEmpty(b) /\ w # "non" THEN Put(b, "9")
        ELSE IF l \in DOMAIN Plain THEN Put(b, Plain[l])
        ELSE IF l \in {"cento", "centesim"} THEN (IF (Len(pk) = 1 \/ BytesLess(pk, "10")) /\ pk # "1" /\ pk # "01" THEN Shift(b, 2) ELSE R("overlap", b))
        ELSE IF l = "mille" /\ IsRangeFree(b, 3, 5) THEN Put(b, "1000")
        ELSE IF l = "mila" /\ IsRangeFree(b, 3, 5) THEN (IF pk3 \in {"1", "001", "", "000"} THEN R("nan", b) ELSE Shift(b, 3))
        ELSE IF l = "millesim" /\ IsRangeFree(b, 3, 5) THEN (IF pk3 \in {"1", "001"} THEN R("nan", b) ELSE Shift(b, 3))
        ELSE IF l = "milione" /\ IsRangeFree(b, 6, 8) THEN Scale(b, "sing", 6)
        ELSE IF l = "milionesim" /\ IsRangeFree(b, 6, 8) THEN Scale(b, "ord", 6)
        ELSE IF l = "milioni" /\ IsRangeFree(b, 6, 8) THEN Scale(b, "plur", 6)
        ELSE IF l = "miliardo" THEN Scale(b, "sing", 9)
        ELSE IF l = "miliardesim" THEN Scale(b, "ord", 9)
        ELSE IF l = "miliardi" THEN Scale(b, "plur", 9)
        ELSE IF l = "bilione" THEN Scale(b, "sing", 12)
        ELSE IF l = "bilionesim" THEN Scale(b, "ord", 12)
        ELSE IF l = "bilioni" THEN Scale(b, "plur", 12)
        ELSE IF l = "e" /\ DLen(b) >= 2 THEN R("incomplete", b)
        ELSE R("nan", b)
      mk == MorphMarker(w)
  IN IF status.st = "ok" /\ mk # "none" THEN R("ok", [status.ds EXCEPT !.marker = mk, !.frozen = TRUE]) ELSE status
ApplyDecimal(w, b) == Apply(w, b)
IsDecimalSep(w) == w = "virgola"
DecimalMark == ","
Annotate(toks) == {}

Vocabulary == DOMAIN Free2 \cup DOMAIN Not10 \cup DOMAIN WhenEmpty \cup DOMAIN Plain \cup Patterns \cup
              {"zero", "non", "nono", "nona", "noni", "e", "virgola", "primo", "prima", "primi", "prime", "secondo", "seconda", "secondi", "seconde",
               "terzo", "quarta", "quinti", "seste", "settimo", "ottava", "decimo", "decima", "undicesimo", "dodicesima", "ventesimo", "ventesimi",
               "centesimo", "millesimo", "milionesimo", "miliardesimo", "ventitré", "ventitre", "ventidue", "trentatré", "centoventi", "centottanta",
               "centottantuno", "centuno", "centouno", "duecento", "duemila", "duemilatrecento", "centomila", "unmilione", "ventunesimo",
               "ventitreesimo", "ventitreesima", "centodecimo", "duecentesimo", "duemillesimo", "sedicesimo", "gatti", "il"}
=============================================================================
