------------------------------ MODULE Gen_Facade ------------------------------
(***************************************************************************)
(* Generator for C13 (facade S9) and the call set of C14:                  *)
(* every built-in language L is driven through three access paths -- the   *)
(* concrete interpreter type, the Language facade, the ISO-code lookup --  *)
(* on the words and seeded texts of EVERY language (so that a facade that   *)
(* answers as another language is distinguishable), plus word-by-word      *)
(* apply sequences (flags, markers, separators, linking words), plus       *)
(* lookups of strings that are not language codes.                         *)
(***************************************************************************)
EXTENDS TextGen, Json, IOUtils
Params == JsonDeserialize(IOEnv.PARAMS)
Seed == Params.seed
NonCodes == <<"", "0", "12", "!", "--", "xx-", "qqqqqqqqqqqqqqqqqqqqqqqqqqqqqqqqqqqqqqqqqqqqqqqqqqqqqqqqqqqqqqqq", "e", "f", "zz9", "1fr", "english!", "français?">>

TextReq(L, n, text) == [i |-> n, mode |-> "text", kind |-> "text", lang |-> L, vias |-> Params.vias, text |-> text,
                        thr |-> Params.thrs[(n % Len(Params.thrs)) + 1], want |-> Params.want]
ApplyReq(L, n, ws, dec) == [i |-> n, mode |-> "apply", kind |-> "apply", lang |-> L, vias |-> Params.vias, words |-> ws, dec |-> dec]
NonCodeReq(n, code) == [i |-> n, mode |-> "text", kind |-> "noncode", lang |-> code, via |-> "lookup", text |-> "one un uno",
                        thr |-> "0", want |-> Params.want]

\* for the language itself: every pair of alphabet words (article + scale word, scale word plurals, ...)
PairsOf(L2) == LET W == Words[L2] n == Len(W) IN [j \in 1..(n * n) |-> W[((j - 1) \div n) + 1] \o " " \o W[((j - 1) % n) + 1]]
TextsOf(L2, salt) == LET W == Words[L2] IN
   [j \in 1..Len(W) |-> W[j]] \o AmbigParts[L2] \o BigParts[L2]
   \o <<CoreWords[L2][2] \o " " \o SepWord[L2] \o " " \o ZeroWord[L2], CoreWords[L2][1] \o " " \o SepWord[L2] \o " " \o CoreWords[L2][2],
        CoreWords[L2][7] \o " " \o SepWord[L2] \o " " \o ZeroWord[L2] \o " " \o CoreWords[L2][2], CoreWords[L2][2] \o " " \o SepWord[L2]>>    \* decimals
   \o [r \in 1..Params.randn |-> RandText(W, Seps, Start(Seed, salt, r), 2 + (r % 5))]
WordSeqs(L2, salt) == LET W == Words[L2] IN
   [r \in 1..Params.randn |-> RandWords(W, Start(Seed, salt + 13, r), 2 + (r % 4))]

RECURSIVE PerPair(_, _, _)
PerPair(k, base, acc) ==     \* k enumerates (L, L2) pairs
  LET n == Len(Params.langs) IN
  IF k > n * n THEN acc
  ELSE LET L == Params.langs[((k - 1) \div n) + 1]  L2 == Params.langs[((k - 1) % n) + 1]
           T == TextsOf(L2, k) \o (IF L = L2 THEN PairsOf(L2) ELSE <<>>)  S == WordSeqs(L2, k)
           part == [j \in 1..Len(T) |-> TextReq(L, base + j, T[j])]
                   \o [j \in 1..Len(S) |-> ApplyReq(L, base + Len(T) + j, S[j], j % 5 = 0)]
       IN PerPair(k + 1, base + Len(part), acc \o part)
Main == PerPair(1, 0, <<>>)
AllReqs == Main \o [j \in 1..Len(NonCodes) |-> NonCodeReq(Len(Main) + j, NonCodes[j])]
ASSUME ndJsonSerialize(IOEnv.OUT, AllReqs)
=============================================================================
