SPECIFICATION Spec
CONSTANTS
  Bug_ShiftNonAtomic = FALSE
  Bug_PushIgnoresFrozen = FALSE
  Bug_PositionFreeUnderflow = FALSE
  L = "en"
  RLow = {0, 1, 2, 3, 5, 8, 9, 10, 11, 12, 13, 16, 18, 20, 21, 23, 28, 60, 71, 80, 81, 90, 99, 100, 101, 110, 118, 181, 400, 500, 999}
  RTh = {0, 1, 2, 21, 100}
INVARIANT NeverSplit
INVARIANT Marked
CHECK_DEADLOCK FALSE
