------------------------------- MODULE MC_Dict -------------------------------
(***************************************************************************)
(* C08, second clause, at model level: the interpreter restricted to the   *)
(* ten digit words, fed through the scanner, for EVERY digit sequence up   *)
(* to MaxLen: the emitted numerals are the groups of Speller!DictGroups    *)
(* (zeros attach to the following non-zero digit, trailing zeros stand     *)
(* together) -- every digit kept, in order.                                *)
(***************************************************************************)
EXTENDS Scanner, TLC
S == INSTANCE Speller
V == INSTANCE Vocab
CONSTANTS L, MaxLen
VARIABLES d, sc
Init == d = "" /\ sc = NewScanner
Next == /\ Len(d) < MaxLen
        /\ \E c \in {"0", "1", "2", "9"} :
             /\ d' = d \o c
             /\ sc' = PushTok(L, PushTok(L, sc, 2 * Len(d), Tok(S!DigitWord(L, c)), "0", V!Linking[L]), 2 * Len(d) + 1, Tok(" "), "0", V!Linking[L])
Spec == Init /\ [][Next]_<<d, sc>>
Emitted == LET occs == Finalize(L, sc, "0").tracker.matches IN [k \in 1..Len(occs) |-> occs[k].t]
GroupsKept == Emitted = S!DictGroups(d, "")
=============================================================================
