----------------------------- MODULE MC_SpellOrd -----------------------------
(***************************************************************************)
(* C04 at model level: the ordinal grammar (P side) drives the interpreter *)
(* model word by word, for ranks built from representative groups, every   *)
(* orthographic variant and every inflection:                              *)
(*   NeverSplit : every word is accepted (ok / incomplete);                *)
(*   Marked     : after the last word the builder carries an ordinal       *)
(*                marker and formats as digits(n) ++ marker.               *)
(***************************************************************************)
EXTENDS Lang, TLC
S == INSTANCE SpellerOrd
CONSTANTS L, RLow, RTh
VARIABLES gs, v, infl, toks, i, ds, st
vars == <<gs, v, infl, toks, i, ds, st>>
SeqSet(s) == {s[j] : j \in 1..Len(s)}
Init == /\ gs \in {<<a, b, 0, 0>> : a \in RLow, b \in RTh}
        /\ S!InOrdDomain(L, gs)
        /\ v \in SeqSet(S!OrdVariants(L)) /\ infl \in SeqSet(S!Infls(L))
        /\ toks = SplitOn(S!Ordinal(L, gs, v, infl), " ", 1, 1) /\ i = 1 /\ ds = New /\ st = "ok"
Next == /\ i <= Len(toks) /\ st \in {"ok", "incomplete"}
        /\ LET r == Apply(L, toks[i], ds) IN ds' = r.ds /\ st' = r.st
        /\ i' = i + 1 /\ UNCHANGED <<gs, v, infl, toks>>
Spec == Init /\ [][Next]_vars
\* the recorded known findings C04-es-segundo-alone and C04-it-secondi-alone
Excused == (L = "es" /\ gs = <<2, 0, 0, 0>> /\ infl \in {"o", "os"}) \/ (L = "it" /\ gs = <<2, 0, 0, 0>> /\ infl = "i")
NeverSplit == Excused \/ st \in {"ok", "incomplete"}
Marked == (i = Len(toks) + 1 /\ ~Excused) =>
            /\ st = "ok" /\ IsOrdinal(ds)
            /\ Format(L, ds).text = S!Dec(gs) \o S!OrdMarker(L, gs, infl)
=============================================================================
