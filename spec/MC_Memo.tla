------------------------------- MODULE MC_Memo -------------------------------
(***************************************************************************)
(* S10 -- an interpreter value shared by several threads.  Each call is    *)
(* two steps (Begin: read the shared interpreter; End: return), so TLC     *)
(* explores every interleaving of concurrent calls.  The sequential        *)
(* specification is Memo: a call may return r for args a iff no earlier    *)
(* call with the same args returned something else -- the interpreter is a *)
(* function.  In the faithful model the interpreter holds no mutable state; *)
(* the mutant Bug_SharedScratch hoists the annotator scratch buffer into   *)
(* the interpreter (what a cache or a thread-unsafe scratch would do) and  *)
(* must be refuted.                                                        *)
(***************************************************************************)
EXTENDS Naturals, Sequences, FiniteSets, TLC
CONSTANTS Threads, Args, MaxCalls, Bug_SharedScratch
VARIABLES pc, arg, seen, scratch, memo, ncalls, out
vars == <<pc, arg, seen, scratch, memo, ncalls, out>>
F(a, s) == IF Bug_SharedScratch THEN <<a, s>> ELSE <<a, 0>>      \* the result may depend on the scratch only in the mutant
Init == /\ pc = [t \in Threads |-> "idle"] /\ arg = [t \in Threads |-> CHOOSE a \in Args : TRUE]
        /\ seen = [t \in Threads |-> 0] /\ scratch = 0 /\ memo = [a \in {} |-> 0] /\ ncalls = 0 /\ out = 0
Begin(t) == /\ pc[t] = "idle" /\ ncalls < MaxCalls
            /\ \E a \in Args : arg' = [arg EXCEPT ![t] = a]
            /\ seen' = [seen EXCEPT ![t] = scratch]                 \* reads the shared interpreter
            /\ scratch' = IF Bug_SharedScratch THEN scratch + 1 ELSE scratch
            /\ pc' = [pc EXCEPT ![t] = "running"] /\ ncalls' = ncalls + 1 /\ UNCHANGED <<memo, out>>
End(t) == /\ pc[t] = "running"
          /\ LET r == F(arg[t], seen[t]) IN
             /\ Assert(arg[t] \notin DOMAIN memo \/ memo[arg[t]] = r, <<"Memo violated", t, arg[t], r, memo>>)
             /\ memo' = IF arg[t] \in DOMAIN memo THEN memo ELSE memo @@ (arg[t] :> r)
          /\ pc' = [pc EXCEPT ![t] = "idle"] /\ UNCHANGED <<arg, seen, scratch, ncalls, out>>
Next == \E t \in Threads : Begin(t) \/ End(t)
Spec == Init /\ [][Next]_vars
NoOutput == out = 0
=============================================================================
