SPECIFICATION Spec
CONSTANTS
  Bug_ShiftNonAtomic = FALSE
  Bug_PushIgnoresFrozen = FALSE
  Bug_PositionFreeUnderflow = FALSE
  L = "de"
  Alphabet = {"null", "ein", "zwei", "zwanzig", "hundert", "tausend", "und", "komma", "dritte", "zwanzigste", "einundzwanzig", "also", "katzen", ", ", ".", " "}
  MaxLen = 3
  Thrs = {"0", "10", "2"}
  Hints = FALSE
INVARIANT Incremental
INVARIANT WellFormed
INVARIANT Policy
INVARIANT Revalidates
INVARIANT ValidatedIsOne
INVARIANT IterEqBatch
INVARIANT LookaheadOK
INVARIANT HintsHonoured
INVARIANT StreamRewriteOK
CHECK_DEADLOCK FALSE
