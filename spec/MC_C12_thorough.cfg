SPECIFICATION Spec
CONSTANTS
  Bug_ShiftNonAtomic = FALSE
  Bug_PushIgnoresFrozen = FALSE
  Bug_PositionFreeUnderflow = FALSE
  DigitArgs = {"0", "1", "5", "20", "00", "100", "", "07"}
  Digits1 = {"0", "3"}
  Positions = {0, 1, 2, 3}
  MaxBuf = 6
  MaxLz = 2
CONSTRAINT Bound
INVARIANT ValidInv
CHECK_DEADLOCK FALSE
