------------------------------ MODULE Val_Spell ------------------------------
(***************************************************************************)
(* Validator of spelled-number records (C01; kinds of C04 C05 C08 C16 are  *)
(* added below as they are built).  For every record TLC RE-COMPUTES the   *)
(* spelling from (language, groups, variant) -- binding the executed input *)
(* to the grammar -- and judges the observations of the real code:         *)
(*   validate(phrase)            = Ok(decimal digits)                      *)
(*   rewrite(phrase, 0)          = decimal digits                          *)
(*   rewrite(prefix phrase suffix, 0) = prefix digits suffix  (one number,  *)
(*                                        never split in two)              *)
(***************************************************************************)
EXTENDS SpellerOrd, Vocab, Props, Json, IOUtils, SequencesExt
Rec == ndJsonDeserialize(IOEnv.TRACE)
Prop == IOEnv.PROP

VerdictC01(q, multi) ==
  LET d == Dec(q.gs)  alone == multi[1]  ctx == multi[2] IN
  IF q.texts[1] # Cardinal(q.lang, q.gs, q.v) THEN "tool-error-phrase-is-not-the-grammar's"
  ELSE IF alone.t2d.st = "panic" \/ alone.rew.st # "ok" \/ ctx.rew.st # "ok" THEN "panic"
  ELSE IF alone.t2d.st # "ok" THEN "spelling-rejected-by-validation"
  ELSE IF alone.t2d.v # d THEN "validated-to-wrong-digits"
  ELSE IF alone.rew.v # d THEN "rewritten-alone-wrong-or-split"
  ELSE IF ctx.rew.v # q.pre \o d \o q.suf THEN "rewritten-in-sentence-wrong-or-split"
  ELSE ""
Rw(m) == m.rew.v
PanicIn(multi) == \E k \in 1..Len(multi) : multi[k].rew.st # "ok" \/ ("t2d" \in DOMAIN multi[k] /\ multi[k].t2d.st = "panic")
                                          \/ ("tk" \in DOMAIN multi[k] /\ multi[k].tk # "ok")
\* C16: k zero words then the number; the number then a zero word; a lone zero
VerdictC16(q, multi) ==
  LET d == Dec(q.gs)  z == Repeat("0", q.k)  num == Cardinal(q.lang, q.gs, q.v)
      phrase == JoinW([j \in 1..q.k |-> ZeroWord[q.lang]] \o <<num>>) IN
  IF q.texts[1] # phrase THEN "tool-error-phrase-is-not-the-grammar's"
  ELSE IF PanicIn(multi) THEN "panic"
  ELSE IF multi[1].t2d.st # "ok" THEN "zeros-then-number-rejected-by-validation"
  ELSE IF multi[1].t2d.v # z \o d THEN "leading-zeros-not-kept-by-validation"
  ELSE IF Rw(multi[1]) # z \o d \/ Rw(multi[2]) # q.pre \o z \o d \o q.suf THEN "leading-zeros-not-kept-by-rewriting"
  ELSE IF Rw(multi[3]) # d \o " 0" THEN "zero-after-number-not-a-new-numeral"
  ELSE IF Rw(multi[4]) # "0" \/ multi[4].t2d.st # "ok" \/ multi[4].t2d.v # "0" THEN "lone-zero-is-not-0"
  ELSE ""
\* C05
VerdictC05(q, multi) ==
  LET L == q.lang  n == Dec(q.gs)  T == n \o DecMark[L] \o q.d  five == "5"
      phrase == Cardinal(L, q.gs, q.v) \o " " \o SepWord[L] \o " " \o Frac(L, q.d) IN
  IF q.texts[1] # phrase THEN "tool-error-phrase-is-not-the-grammar's"
  ELSE IF PanicIn(multi) THEN "panic"
  ELSE IF Rw(multi[1]) # T THEN "decimal-not-rewritten-as-one-number-with-all-digits"
  ELSE IF Rw(multi[2]) # q.pre \o T \o q.suf THEN "decimal-in-sentence-wrong"
  ELSE IF Len(multi[1].occs) # 1 \/ multi[1].occs[1].t # T THEN "decimal-not-one-occurrence"
  ELSE IF ~ValueMatches(multi[1].occs[1].v, n \o "." \o q.d) THEN "decimal-value-wrong"
  ELSE IF multi[1].occs[1].o THEN "decimal-flagged-ordinal"
  ELSE IF Rw(multi[3]) # q.sep \o " " \o five THEN "separator-without-number-before-not-left-as-word"
  ELSE IF Rw(multi[4]) # five \o " " \o q.sep THEN "separator-without-fraction-not-left-as-word"
  ELSE IF Rw(multi[5]) # five \o " " \o q.sep \o " xyz" THEN "separator-before-ordinary-word-not-left-as-word"
  ELSE IF Rw(multi[6]) # five \o " " \o q.sep \o ", " \o five THEN "separator-before-punctuation-not-left-as-word"
  \* a second separator word does not continue the fraction: the decimal that was said is T, whatever is made of the rest
  ELSE IF Len(multi) >= 7 /\ ~(StartsWith(Rw(multi[7]), T) /\ (Len(Rw(multi[7])) = Len(T) \/ ~IsDigits(Ch(Rw(multi[7]), Len(T) + 1))))
       THEN "digits-after-a-second-separator-read-into-the-fraction"
  ELSE ""
\* C08
RECURSIVE SplitBlank(_, _, _)
SplitBlank(s, i, cur) == IF i > Len(s) THEN (IF cur = "" THEN <<>> ELSE <<cur>>)
                         ELSE IF Ch(s, i) = " " THEN (IF cur = "" THEN <<>> ELSE <<cur>>) \o SplitBlank(s, i + 1, "")
                         ELSE SplitBlank(s, i + 1, cur \o Ch(s, i))
RECURSIVE LexCat(_, _)
LexCat(L, ns) == IF ns = <<>> THEN <<>> ELSE Lex99(L, Head(ns)) \o LexCat(L, Tail(ns))
VerdictC08(q, multi) ==
  IF PanicIn(multi) THEN "panic"
  ELSE IF q.kind = "pair" THEN
    LET L == q.lang  a == q.a  b == q.b
        sa == Cardinal(L, <<a, 0, 0, 0>>, q.v)  sb == Cardinal(L, <<b, 0, 0, 0>>, q.v)
        both == NatStr(a) \o q.joiner \o NatStr(b)
        fused == {NatStr(c) : c \in Fused(L, a, b)}
        zero == IF a = 0 /\ ~q.conj THEN {"0" \o NatStr(b)} ELSE {}
        \* the same words can sometimes be cut differently into two or three standard numbers ("vingt quatre vingts" is 20 80 as well
        \* as 24 20): any segmentation whose lexemes are exactly those of a followed by those of b is a faithful reading
        \* (lexemes are compared modulo the conjunction, as for the fused reading: a conjunction word left in the output is skipped)
        pieces == SelectSeq(SplitBlank(Rw(multi[1]), 1, ""), LAMBDA w : w # ConjWord[L])
        segOK == /\ Len(pieces) >= 1 /\ Len(pieces) <= 3
                 /\ \A k \in 1..Len(pieces) : pieces[k] # "" /\ IsDigits(pieces[k]) /\ Len(pieces[k]) <= 2
                                              /\ (Len(pieces[k]) = 1 \/ Ch(pieces[k], 1) # "0")
                 /\ LexCat(L, [k \in 1..Len(pieces) |-> StrNat(pieces[k])]) = Lex99(L, a) \o Lex99(L, b)
    IN IF q.texts[1] # sa \o q.joiner \o sb THEN "tool-error-phrase-is-not-the-grammar's"
       ELSE IF Rw(multi[1]) \in ({both} \cup fused \cup zero) THEN ""
       ELSE IF segOK THEN ""
       ELSE "two-numbers-fused-or-altered"
  ELSE IF q.texts[1] # Dictation(q.lang, q.d) THEN "tool-error-phrase-is-not-the-grammar's"
  ELSE IF Rw(multi[1]) # JoinWith(DictGroups(q.d, ""), " ") THEN "dictated-digits-lost-or-regrouped"
  ELSE ""
\* C04
VerdictC04(q, multi) ==
  LET L == q.lang  d == Dec(q.gs)  T == d \o OrdMarker(L, q.gs, q.infl)  alone == multi[1]  ctx == multi[2] IN
  IF q.texts[1] # Ordinal(L, q.gs, q.v, q.infl) THEN "tool-error-phrase-is-not-the-grammar's"
  ELSE IF PanicIn(multi) THEN "panic"
  ELSE IF alone.t2d.st # "ok" THEN "ordinal-rejected-by-validation"
  ELSE IF alone.t2d.v # T THEN "ordinal-validated-to-wrong-digits-or-marker"
  ELSE IF Rw(alone) # T \/ Rw(ctx) # q.pre \o T \o q.suf THEN "ordinal-rewritten-wrong"
  ELSE IF Len(alone.occs) # 1 \/ alone.occs[1].t # T THEN "ordinal-not-one-occurrence"
  ELSE IF ~alone.occs[1].o THEN "ordinal-not-flagged"
  ELSE IF ~ValueMatches(alone.occs[1].v, d) THEN "ordinal-value-is-not-the-rank"
  ELSE ""
\* C10, punctuation clause
VerdictC10p(q, multi) ==
  IF q.texts[1] # Cardinal(q.lang, q.ga, q.v) \o q.p \o Cardinal(q.lang, q.gb, q.v) THEN "tool-error-phrase-is-not-the-grammar's"
  ELSE IF PanicIn(multi) THEN "panic"
  ELSE IF Rw(multi[1]) # Dec(q.ga) \o q.p \o Dec(q.gb) THEN "punctuation-does-not-keep-two-numbers-apart"
  ELSE ""
V(r) == CASE Prop = "C01" -> VerdictC01(r.q, r.multi)
          [] Prop = "C16" -> VerdictC16(r.q, r.multi)
          [] Prop = "C05" -> VerdictC05(r.q, r.multi)
          [] Prop = "C08" -> VerdictC08(r.q, r.multi)
          [] Prop = "C04" -> VerdictC04(r.q, r.multi)
          [] Prop = "C10" -> VerdictC10p(r.q, r.multi)
Bad == {x \in {[l |-> l, i |-> Rec[l].i, k |-> 1, verdict |-> V(Rec[l])] : l \in 1..Len(Rec)} : x.verdict # ""}
ASSUME JsonSerialize(IOEnv.OUT, [events |-> Len(Rec), pbad |-> SetToSeq(Bad), drift |-> <<>>])
=============================================================================
