SPECIFICATION Spec
CONSTANTS
  Bug_ShiftNonAtomic = FALSE
  Bug_PushIgnoresFrozen = FALSE
  Bug_PositionFreeUnderflow = FALSE
  L = "en"
  Alphabet = {"o", "one", "twenty", "hundred", "third", "and", "point", "apples", "plus", "twenty-five"}
  MaxWords = 3
  Thrs = {"0", "10"}
  StrongSeps = {" green cars arrived. "}
INVARIANT CaseOK
INVARIANT WsOK
INVARIANT ContextOK
INVARIANT NoNumberNoChange
INVARIANT OTwinOK
CHECK_DEADLOCK FALSE
