------------------------------ MODULE Val_Scan ------------------------------
(***************************************************************************)
(* Validator of scan-harness records (token streams with hints).           *)
(* Verdict: VerdictC15 or VerdictC02s of Props (IOEnv.PROP).               *)
(* Drift  : stateful validation of S4 -- the per-token projection logged    *)
(* through the FindNumbers hooks (has_number, is_dec, int/dec rendering,   *)
(* frozen, match_start/end, queue length, on_hold, last kind) is compared  *)
(* after EVERY push with the projection of the model Scanner!PushTok, for  *)
(* the languages modelled so far.                                          *)
(***************************************************************************)
EXTENDS Props, Scanner, Json, IOUtils, SequencesExt

Rec == ndJsonDeserialize(IOEnv.TRACE)
Prop == IOEnv.PROP

V(r) == CASE Prop = "C15" -> VerdictC15(r.q, r)
          [] Prop = "C02" -> VerdictC02s(r.q, r)
          [] Prop = "C07" -> VerdictC07s(r.q.lang, r.q, r)

Proj(s) == [hn |-> HasNumber(s.parser), dec |-> s.parser.isdec, ip |-> Render(s.parser.int), ifz |-> s.parser.int.frozen,
            iord |-> IsOrdinal(s.parser.int), dp |-> Render(s.parser.dec), ms |-> s.tracker.ms, me |-> s.tracker.me,
            q |-> Len(s.tracker.matches), hold |-> s.tracker.hold # <<>>, last |-> s.tracker.last, prev |-> s.hasprev]
MTok(t) == [text |-> t.t, lower |-> Lower(t.t), sep |-> t.sep, nan |-> t.nan]
\* first step (1-based) at which model and implementation projections differ, 0 if none; Len+1 = final/occurrences
RECURSIVE FirstDiff(_, _, _, _, _, _)
FirstDiff(L, s, toks, steps, i, thr) ==
  IF i > Len(toks) THEN 0
  ELSE LET s2 == PushTok(L, s, i - 1, MTok(toks[i]), thr, Linking[L]) IN
       IF Proj(s2) # steps[i] THEN i ELSE FirstDiff(L, s2, toks, steps, i + 1, thr)
\* S8 drift: the model's reverse splice against the tokens returned by replace_numbers_in_stream (ids, texts, hand-over)
StreamDrift(r) ==
  "stream" \in DOMAIN r /\ r.stream.st = "ok" /\
  LET m == ReplaceInStream(r.q.lang, [i \in 1..Len(r.q.toks) |-> MTok(r.q.toks[i])], r.q.thr, Linking[r.q.lang])
      real == [k \in 1..Len(r.stream.v.out) |-> [id |-> r.stream.v.out[k].id, t |-> r.stream.v.out[k].t, from |-> r.stream.v.out[k].from]]
  IN m.out # real \/ [k \in 1..Len(m.calls) |-> m.calls[k].data] # [k \in 1..Len(r.stream.v.calls) |-> r.stream.v.calls[k].data]
DriftOf(r) ==
  IF StreamDrift(r) THEN Len(r.q.toks) + 2
  ELSE IF "steps" \notin DOMAIN r \/ r.steps.st # "ok" THEN 0
  ELSE LET d == FirstDiff(r.q.lang, NewScanner, r.q.toks, r.steps.v.steps, 1, r.q.thr) IN
       IF d # 0 THEN d
       ELSE IF ~ModelOccsAgree(r.steps.v.occs, Batch(r.q.lang, [i \in 1..Len(r.q.toks) |-> MTok(r.q.toks[i])], r.q.thr, Linking[r.q.lang]))
            THEN Len(r.q.toks) + 1 ELSE 0
DriftOn == "DRIFT" \in DOMAIN IOEnv /\ IOEnv.DRIFT = "1"
InModel(r) == r.q.lang \in Modelled /\ ("steps" \in DOMAIN r \/ "stream" \in DOMAIN r) /\ \A i \in 1..Len(r.q.toks) : AllKnown(r.q.toks[i].t)
Drift == IF ~DriftOn THEN {} ELSE
         {x \in {[l |-> l, i |-> Rec[l].i, step |-> DriftOf(Rec[l])] : l \in {j \in 1..Len(Rec) : InModel(Rec[j])}} : x.step # 0}
Bad == {x \in {[l |-> l, i |-> Rec[l].i, k |-> 1, verdict |-> V(Rec[l])] : l \in 1..Len(Rec)} : x.verdict # ""}
StepsChecked == IF ~DriftOn THEN 0 ELSE
   LET S == {j \in 1..Len(Rec) : InModel(Rec[j])} IN Cardinality(S)
ASSUME JsonSerialize(IOEnv.OUT, [events |-> Len(Rec), pbad |-> SetToSeq(Bad), drift |-> SetToSeq(Drift), drift_checked |-> StepsChecked])
=============================================================================
