------------------------------ MODULE TextGen ------------------------------
(***************************************************************************)
(* Shared operators of the generator modules Gen_xxx -- texts are built from *)
(* the stream alphabets of Vocab; pseudo-random choices come from a linear *)
(* congruential generator written in TLA+ and seeded by the orchestrator   *)
(* (VERIF_SEED), so every run is deterministic given its seed.             *)
(***************************************************************************)
EXTENDS Chars, Vocab, Num, TLC

Lcg(x) == (x * 1021 + 24691) % 1048576
RECURSIVE LcgN(_, _)
LcgN(x, n) == IF n = 0 THEN x ELSE LcgN(Lcg(x), n - 1)
Pick(seq, x) == seq[((x \div 16) % Len(seq)) + 1]
Start(seed, salt, r) == LcgN(((((seed % 100000) * 7919) % 1048576) + (((salt % 1000) * 611953) % 1048576) + (((r % 10007) * 104729) % 1048576) + ((r \div 10007) * 31)) % 1048576, 3)

RECURSIVE Pow(_, _)
Pow(b, e) == IF e = 0 THEN 1 ELSE b * Pow(b, e - 1)

\* w1 s1 w2 s2 ... wn   (ws: sequence of words, ss: sequence of n-1 separators)
RECURSIVE Interleave(_, _)
Interleave(ws, ss) == IF Len(ws) = 0 THEN "" ELSE IF Len(ws) = 1 THEN ws[1]
                      ELSE ws[1] \o ss[1] \o Interleave(Tail(ws), Tail(ss))

\* all texts of exactly n words over W with separators from S (j enumerates the product, 0-based)
ExText(W, S, n, j) ==
  LET nw == Len(W) ns == Len(S)
      wi(d) == ((j \div Pow(nw, n - d)) % nw) + 1
      rest == j \div Pow(nw, n)
      si(d) == ((rest \div Pow(ns, d - 1)) % ns) + 1
  IN Interleave([d \in 1..n |-> W[wi(d)]], [d \in 1..(n - 1) |-> S[si(d)]])
ExCount(W, S, n) == Pow(Len(W), n) * Pow(Len(S), n - 1)

\* a pseudo-random text of n words: returns the text
RECURSIVE RandWords(_, _, _)
RandWords(W, x, n) == IF n = 0 THEN <<>> ELSE <<Pick(W, x)>> \o RandWords(W, Lcg(Lcg(x)), n - 1)
RECURSIVE RandSeps(_, _, _)
RandSeps(S, x, n) == IF n = 0 THEN <<>> ELSE <<Pick(S, Lcg(x))>> \o RandSeps(S, Lcg(Lcg(x)), n - 1)
RandText(W, S, x, n) == Interleave(RandWords(W, x, n), RandSeps(S, x, n - 1))

SubSeqIdx(seq, idx) == [k \in 1..Len(idx) |-> seq[idx[k]]]
=============================================================================
