SPECIFICATION Spec
CONSTANTS
  Bug_ShiftNonAtomic = FALSE
  Bug_PushIgnoresFrozen = FALSE
  Bug_PositionFreeUnderflow = FALSE
  L = "es"
  Alphabet = {"cero", "uno", "dos", "veinte", "cien", "mil", "y", "coma", "tercero", "vigésimo", "doceavo", "mas", "gatos", ", ", ".", " "}
  MaxLen = 2
  Thrs = {"0", "10", "2"}
  Hints = FALSE
INVARIANT Incremental
INVARIANT WellFormed
INVARIANT Policy
INVARIANT Revalidates
INVARIANT ValidatedIsOne
INVARIANT IterEqBatch
INVARIANT LookaheadOK
INVARIANT HintsHonoured
INVARIANT StreamRewriteOK
CHECK_DEADLOCK FALSE
