------------------------------ MODULE Val_Calls ------------------------------
(***************************************************************************)
(* Validator of plain call records: C03 (totality), C13 (facade, ISO       *)
(* codes), C14 (Memo: histories of calls on shared interpreters).          *)
(***************************************************************************)
EXTENDS Props, Json, IOUtils, SequencesExt
Rec == ndJsonDeserialize(IOEnv.TRACE)
Prop == IOEnv.PROP

\* C14: the reference results (fresh interpreter per call) come first in the history
RefIdx == {l \in 1..Len(Rec) : Prop = "C14" /\ Rec[l].who = "fresh"}
Ref == [k \in {Rec[l].k : l \in RefIdx} |-> Rec[CHOOSE l \in RefIdx : Rec[l].k = k].res]

V3(r) == IF "multi" \in DOMAIN r THEN First([k \in 1..Len(r.multi) |-> VerdictC03(r.q, r.multi[k])])
         ELSE IF "lookup" \in DOMAIN r /\ r.lookup = "panic" THEN "language-lookup-panics"
         ELSE IF "lookup" \in DOMAIN r /\ r.lookup = "none" THEN ""          \* a non-code: nothing to run (C13 judges which codes resolve)
         ELSE "tool-error"
V(l) == LET r == Rec[l] IN
        CASE Prop = "C03" -> V3(r)
          [] Prop = "C13" -> VerdictC13(r.q, r)
          [] Prop = "C14" -> VerdictC14(r, Ref)
Bad == {x \in {[l |-> l, i |-> IF Prop = "C14" THEN Rec[l].k ELSE Rec[l].i, k |-> 1, verdict |-> V(l)] : l \in 1..Len(Rec)} : x.verdict # ""}
ASSUME JsonSerialize(IOEnv.OUT, [events |-> Len(Rec), pbad |-> SetToSeq(Bad), drift |-> <<>>])
=============================================================================
