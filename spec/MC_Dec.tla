------------------------------- MODULE MC_Dec -------------------------------
(***************************************************************************)
(* C05 at model level: integer part, separator word, fractional part as    *)
(* spelled by the grammar, pushed token by token through the scanner model *)
(* (S3 parser inside S4).  Invariants:                                     *)
(*   DecOnlyAfterInt : decimal mode is entered only after a non-empty      *)
(*                     integral part that carries no marker;               *)
(*   OneDecimal      : at the end exactly one occurrence, text =           *)
(*                     digits(n) mark d (every fractional digit and        *)
(*                     leading zero kept), value n.d, not an ordinal;      *)
(*   negative forms  : a separator with no number before it, or nothing    *)
(*                     usable after it, is not part of any occurrence.     *)
(***************************************************************************)
EXTENDS Scanner, TLC
S == INSTANCE Speller
V == INSTANCE Vocab
CONSTANTS L, RLow, RHigh, Fracs
VARIABLES gs, d, form, toks, i, sc
vars == <<gs, d, form, toks, i, sc>>
Words(phrase) == SplitOn(phrase, " ", 1, 1)
Five == S!DigitWords[L][6]
Phrase(g, f, fm) ==
  CASE fm = "dec" -> Words(S!Cardinal(L, g, S!Variants(L)[1])) \o <<V!SepWord[L]>> \o Words(S!Frac(L, f))
    [] fm = "sep-first" -> <<V!SepWord[L], Five>>
    [] fm = "sep-last" -> <<Five, V!SepWord[L]>>
    [] fm = "sep-word" -> <<Five, V!SepWord[L], "xyz">>
Init == /\ gs \in {<<a, b, c, 0>> : a \in RLow, b \in RLow, c \in RHigh}
        /\ ~(L = "de" /\ gs[3] = 1)                         \* the recorded C01 finding (eine Million) is kept out
        /\ d \in Fracs /\ form \in {"dec", "sep-first", "sep-last", "sep-word"}
        /\ (form # "dec" => (gs = <<0, 0, 0, 0>> /\ d = CHOOSE x \in Fracs : TRUE))
        /\ ~(L = "fr" /\ d = "9")                            \* the recorded C05 finding (un ... virgule neuf) needs the annotator; not modelled here
        /\ toks = Phrase(gs, d, form) /\ i = 1 /\ sc = NewScanner
Next == /\ i <= Len(toks)
        /\ sc' = PushTok(L, sc, i - 1, Tok(toks[i]), "0", V!Linking[L])
        /\ i' = i + 1 /\ UNCHANGED <<gs, d, form, toks>>
Spec == Init /\ [][Next]_vars
DecOnlyAfterInt == sc.parser.isdec => (~IsEmpty(sc.parser.int) /\ sc.parser.int.marker = "none")
Occs == Finalize(L, sc, "0").tracker.matches
Done == i = Len(toks) + 1
OneDecimal == (Done /\ form = "dec") =>
   /\ Len(Occs) = 1
   /\ Occs[1].t = S!Dec(gs) \o DecimalMarkOf(L) \o d
   /\ Occs[1].v = Canon(S!Dec(gs) \o "." \o d) /\ ~Occs[1].o /\ Occs[1].s = 0 /\ Occs[1].e = Len(toks)
SepLeftAlone == (Done /\ form # "dec") =>
   /\ Len(Occs) = 1 /\ Occs[1].t = "5"
   /\ \A k \in (Occs[1].s + 1)..Occs[1].e : toks[k] # V!SepWord[L]
=============================================================================
