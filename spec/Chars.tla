------------------------------- MODULE Chars -------------------------------
(***************************************************************************)
(* Finite character alphabet with the classes the code distinguishes       *)
(* (char::is_alphanumeric / is_alphabetic / is_whitespace /                *)
(* is_ascii_whitespace, '-' and '\''), case tables, and string helpers.     *)
(* TLC strings support \o, Len and SubSeq, so texts and words are real      *)
(* strings.  The harness mode `chars` checks (drift) that Rust's predicates *)
(* agree with these tables on every character of the alphabet.             *)
(***************************************************************************)
EXTENDS Naturals, Sequences, FiniteSets

Ch(s, i) == SubSeq(s, i, i)
CharsOf(s) == {Ch(s, i) : i \in 1..Len(s)}

LowerAscii == "abcdefghijklmnopqrstuvwxyz"
UpperAscii == "ABCDEFGHIJKLMNOPQRSTUVWXYZ"
LowerAcc   == "àâäáãçéèêëíîïñóôöõúùûüœæß"
UpperAcc   == "ÀÂÄÁÃÇÉÈÊËÍÎÏÑÓÔÖÕÚÙÛÜŒÆẞ"
Lowers == LowerAscii \o LowerAcc
Uppers == UpperAscii \o UpperAcc
OtherAlpha == "ºªᵉʳᵒˢᵃ日本"            \* alphabetic, no (reversible) case pair in the tables (ß pairs with the capital ẞ U+1E9E)
DigitChars == "0123456789"
OtherNumeric == "٣½"                      \* numeric but not ASCII digits (Nd / No)

AsciiWs == <<" ", "\t", "\n", "\r", "\f">>
\* non-ASCII White_Space: NBSP, ogham, en quad .. hair space, LS, PS, NNBSP, MMSP, ideographic, NEL, VT
UniWs == <<" ", " ", " ", " ", " ", " ", " ", " ", " ", " ", " ", " ", " ", " ", " ", " ", " ", "　", "", "">>
Punct == ",.;:!?()/…–«»\"*+=&%@#"
Hyphen == "-"
Apostrophe == "'"

RangeOf(f) == {f[i] : i \in DOMAIN f}
WsSet == RangeOf(AsciiWs) \cup RangeOf(UniWs)
AsciiWsSet == RangeOf(AsciiWs)
AlphaSet == CharsOf(Lowers) \cup CharsOf(Uppers) \cup CharsOf(OtherAlpha)
AlnumSet == AlphaSet \cup CharsOf(DigitChars) \cup CharsOf(OtherNumeric)
PunctSet == CharsOf(Punct)
Known == AlnumSet \cup WsSet \cup PunctSet \cup {Hyphen, Apostrophe}

IsAlpha(c) == c \in AlphaSet
IsAlnum(c) == c \in AlnumSet
IsWs(c) == c \in WsSet
IsWordChar(c) == IsAlnum(c) \/ c = "-" \/ c = "'"

IndexIn(s, c) == CHOOSE i \in 1..Len(s) : Ch(s, i) = c
LowerCh(c) == IF c \in CharsOf(Uppers) THEN Ch(Lowers, IndexIn(Uppers, c)) ELSE c
UpperCh(c) == IF c \in CharsOf(Lowers) THEN Ch(Uppers, IndexIn(Lowers, c)) ELSE c

RECURSIVE MapStr(_, _)
MapStr(F(_), s) == IF s = "" THEN "" ELSE F(Ch(s, 1)) \o MapStr(F, SubSeq(s, 2, Len(s)))
Lower(s) == MapStr(LowerCh, s)
Upper(s) == MapStr(UpperCh, s)
Capitalise(s) == IF s = "" THEN "" ELSE UpperCh(Ch(s, 1)) \o SubSeq(s, 2, Len(s))
RECURSIVE Alternate(_, _)
Alternate(s, up) == IF s = "" THEN "" ELSE (IF up THEN UpperCh(Ch(s, 1)) ELSE LowerCh(Ch(s, 1))) \o Alternate(SubSeq(s, 2, Len(s)), ~up)

\* ---- predicates on whole strings (tokens) --------------------------------
AllChars(P(_), s) == \A i \in 1..Len(s) : P(Ch(s, i))
AnyChar(P(_), s) == \E i \in 1..Len(s) : P(Ch(s, i))
HasAlpha(s) == AnyChar(IsAlpha, s)
HasAlnum(s) == AnyChar(IsAlnum, s)
IsWsOnly(s) == AllChars(IsWs, s)                    \* also true for ""
IsDigits(s) == AllChars(LAMBDA c : c \in CharsOf(DigitChars), s)
AllKnown(s) == AllChars(LAMBDA c : c \in Known, s)
RECURSIVE TrimWs(_)
TrimWs(s) == IF s # "" /\ IsWs(Ch(s, 1)) THEN TrimWs(SubSeq(s, 2, Len(s)))
             ELSE IF s # "" /\ IsWs(Ch(s, Len(s))) THEN TrimWs(SubSeq(s, 1, Len(s) - 1))
             ELSE s

RECURSIVE Concat(_)
Concat(ss) == IF ss = <<>> THEN "" ELSE Head(ss) \o Concat(Tail(ss))
RECURSIVE JoinWith(_, _)
JoinWith(ss, sep) == IF ss = <<>> THEN "" ELSE IF Len(ss) = 1 THEN ss[1] ELSE ss[1] \o sep \o JoinWith(Tail(ss), sep)
StartsWith(w, s) == Len(w) >= Len(s) /\ SubSeq(w, 1, Len(s)) = s
EndsWith(w, s) == Len(w) >= Len(s) /\ SubSeq(w, Len(w) - Len(s) + 1, Len(w)) = s
DropEnd(w, n) == SubSeq(w, 1, Len(w) - n)
RECURSIVE Repeat(_, _)
Repeat(s, n) == IF n = 0 THEN "" ELSE s \o Repeat(s, n - 1)
=============================================================================
