-------------------------------- MODULE Lang --------------------------------
(***************************************************************************)
(* Dispatch on the language code (the LangInterpreter trait seen from the  *)
(* generic layers S3-S5) and the facade S9: the runtime-selectable         *)
(* Language value delegates every trait method to the concrete interpreter *)
(* and get_interpreter_for maps ISO 639-1 codes to variants.               *)
(***************************************************************************)
EXTENDS LangCommon, Num
En == INSTANCE Lang_en
Fr == INSTANCE Lang_fr
Es == INSTANCE Lang_es
Pt == INSTANCE Lang_pt
It == INSTANCE Lang_it
De == INSTANCE Lang_de
Nl == INSTANCE Lang_nl

Modelled == {"en", "fr", "es", "pt", "it", "de", "nl"}

Apply(L, w, b) == CASE L = "en" -> En!Apply(w, b) [] L = "fr" -> Fr!Apply(w, b) [] L = "es" -> Es!Apply(w, b) [] L = "pt" -> Pt!Apply(w, b) [] L = "it" -> It!Apply(w, b) [] L = "de" -> De!Apply(w, b) [] L = "nl" -> Nl!Apply(w, b)
ApplyDecimal(L, w, b) == CASE L = "en" -> En!ApplyDecimal(w, b) [] L = "fr" -> Fr!ApplyDecimal(w, b) [] L = "es" -> Es!ApplyDecimal(w, b) [] L = "pt" -> Pt!ApplyDecimal(w, b) [] L = "it" -> It!ApplyDecimal(w, b) [] L = "de" -> De!ApplyDecimal(w, b) [] L = "nl" -> Nl!ApplyDecimal(w, b)
IsDecimalSep(L, w) == CASE L = "en" -> En!IsDecimalSep(w) [] L = "fr" -> Fr!IsDecimalSep(w) [] L = "es" -> Es!IsDecimalSep(w) [] L = "pt" -> Pt!IsDecimalSep(w) [] L = "it" -> It!IsDecimalSep(w) [] L = "de" -> De!IsDecimalSep(w) [] L = "nl" -> Nl!IsDecimalSep(w)
DecimalMarkOf(L) == CASE L = "en" -> En!DecimalMark [] L = "fr" -> Fr!DecimalMark [] L = "es" -> Es!DecimalMark [] L = "pt" -> Pt!DecimalMark [] L = "it" -> It!DecimalMark [] L = "de" -> De!DecimalMark [] L = "nl" -> Nl!DecimalMark
ExecGroup(L, ws) == CASE L = "en" -> En!ExecGroup(ws) [] L = "fr" -> Fr!ExecGroup(ws) [] L = "es" -> Es!ExecGroup(ws) [] L = "pt" -> Pt!ExecGroup(ws) [] L = "it" -> It!ExecGroup(ws) [] L = "de" -> De!ExecGroup(ws) [] L = "nl" -> Nl!ExecGroup(ws)
Annotate(L, toks) == CASE L = "en" -> En!Annotate(toks) [] L = "fr" -> Fr!Annotate(toks) [] OTHER -> {}

VocabOf(L) == CASE L = "en" -> En!Vocabulary [] L = "fr" -> Fr!Vocabulary [] L = "es" -> Es!Vocabulary [] L = "pt" -> Pt!Vocabulary
                [] L = "it" -> It!Vocabulary [] L = "de" -> De!Vocabulary [] L = "nl" -> Nl!Vocabulary
MorphMarkerOf(L, w) == CASE L = "en" -> En!MorphMarker(w) [] L = "fr" -> Fr!MorphMarker(w) [] L = "es" -> Es!MorphMarker(w) [] L = "pt" -> Pt!MorphMarker(w)
                [] L = "it" -> It!MorphMarker(w) [] L = "de" -> De!MorphMarker(w) [] L = "nl" -> Nl!MorphMarker(w)

\* format_and_value / format_decimal_and_value: text and value (as a decimal string with "." mark)
Format(L, b) == LET r == Render(b) IN
  IF L = "es" /\ IsFractionMk(b.marker) THEN [text |-> "1/" \o r, value |-> "1/" \o Canon(r)]   \* value = 1/n, kept symbolic
  ELSE IF IsOrdinal(b) THEN [text |-> r \o MarkerText(b.marker), value |-> Canon(r)]
  ELSE [text |-> r, value |-> Canon(r)]
FormatDecimal(L, int, dec) == [text |-> Render(int) \o DecimalMarkOf(L) \o Render(dec), value |-> Canon(Render(int) \o "." \o Render(dec))]

\* S9 -- the facade
Variants == {"de", "en", "es", "fr", "it", "nl", "pt"}
Lookup(code) == IF code \in Variants THEN code ELSE "none"
=============================================================================
