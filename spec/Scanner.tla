------------------------------ MODULE Scanner ------------------------------
(***************************************************************************)
(* S3 WordToDigitParser, S4 FindNumbers.push + NumTracker, S5 the lazy     *)
(* iterator (src/word_to_digit.rs), as pure step operators over records,   *)
(* in the shape of the code: one operator per method, same order of tests. *)
(* Positions are 0-based like the code.  A token is a record               *)
(*   [text, lower, sep, nan]  (sep/nan: the two Token hints).              *)
(* Thresholds and values are decimal strings (Num).                        *)
(***************************************************************************)
EXTENDS Lang, Integers

\* Negative controls: defects that were found on the pinned tree or seeded by independent reviewers, kept as
\* switchable mutants of the model (overridden to TRUE by the MC_Scanner_*_mut_* configurations with
\* `CONSTANT Bug_x <- TrueValue`); the invariants of MC_Scanner must refute each of them.
Bug_HoldNotCleared == FALSE          \* a held small number is not dropped when an unrelated number is queued
Bug_ThresholdInclusive == FALSE      \* value <= threshold instead of value < threshold
Bug_RetryIncompleteBreaks == FALSE   \* original: a conjunction restarting the parser after a forced stop is handed to outside_number
TrueValue == TRUE

(* ---- S3 ---- *)
NewParser == [int |-> New, dec |-> New, isdec |-> FALSE]
HasNumber(p) == ~IsEmpty(p.int)
\* returns the parser AFTER the push also on failure (interpreters may change flags on a rejected word)
ParserPush(L, p, w) ==
  LET r  == IF p.isdec THEN ApplyDecimal(L, w, p.dec) ELSE Apply(L, w, p.int)
      p1 == IF p.isdec THEN [p EXCEPT !.dec = r.ds] ELSE [p EXCEPT !.int = r.ds]
  IN IF r.st \notin {"ok"} /\ ~p.isdec /\ ~IsEmpty(p1.int) /\ p1.int.marker = "none" /\ IsDecimalSep(L, w)
     THEN [st |-> "incomplete", p |-> [p1 EXCEPT !.isdec = TRUE]]
     ELSE [st |-> r.st, p |-> p1]
ParserFinish(L, p) == IF p.isdec /\ ~IsEmpty(p.dec) THEN FormatDecimal(L, p.int, p.dec) ELSE Format(L, p.int)

(* ---- NumTracker ---- *)
NewTracker == [matches |-> <<>>, hold |-> <<>>, last |-> "none", ms |-> 0, me |-> 0]
Advanced(t, pos) == [t EXCEPT !.ms = IF t.ms = t.me THEN pos ELSE @, !.me = pos + 1]
TrackerNumberEnd(t, ord, text, value, forget) ==
  LET occ   == [s |-> t.ms, e |-> t.me, t |-> text, v |-> value, o |-> ord]
      kind  == IF ord THEN "ord" ELSE "card"
      last1 == IF t.last # kind THEN "none" ELSE t.last
  IN IF last1 # "none" THEN [t EXCEPT !.matches = @ \o t.hold \o <<occ>>, !.hold = <<>>, !.last = kind, !.ms = t.me]
     ELSE IF forget THEN [t EXCEPT !.hold = <<occ>>, !.last = kind, !.ms = t.me]
     ELSE [t EXCEPT !.matches = Append(@, occ), !.hold = IF Bug_HoldNotCleared THEN @ ELSE <<>>, !.last = kind, !.ms = t.me]

(* ---- S4 ---- *)
NewScanner == [parser |-> NewParser, tracker |-> NewTracker, hasprev |-> FALSE]
IsSkip(tok) == tok.text = "-" \/ IsWsOnly(tok.text)
NumberEnd(L, s, thr) ==
  LET ord == IsOrdinal(s.parser.int)
      f == ParserFinish(L, s.parser)
      forget == (Len(f.text) = 1 \/ ord) /\ (ValueBelow(f.value, thr) \/ (Bug_ThresholdInclusive /\ Canon(f.value) = thr))
  IN [s EXCEPT !.parser = NewParser, !.tracker = TrackerNumberEnd(s.tracker, ord, f.text, f.value, forget)]
\* outside_number: anything alphabetic (or a lone period) that is not a linking word breaks a sequence.
\* Repaired: the linking-word lookup uses the lowercase form.
Outside(L, s, tok, linking) ==
  IF ~((~HasAlpha(tok.text) /\ TrimWs(tok.text) # ".") \/ tok.lower \in linking) THEN [s EXCEPT !.tracker.last = "none"] ELSE s
PushTok(L, s, pos, tok, thr, linking) ==
  IF IsSkip(tok) THEN s
  ELSE IF tok.nan THEN
       [Outside(L, IF HasNumber(s.parser) THEN NumberEnd(L, s, thr) ELSE s, tok, linking) EXCEPT !.hasprev = TRUE]
  ELSE LET test == IF s.hasprev /\ HasNumber(s.parser) /\ tok.sep THEN "," ELSE tok.lower
           r  == ParserPush(L, s.parser, test)
           s1 == [s EXCEPT !.parser = r.p, !.hasprev = TRUE]
       IN IF r.st = "ok" THEN [s1 EXCEPT !.tracker = Advanced(@, pos)]
          ELSE IF r.st = "incomplete" THEN s1
          ELSE IF HasNumber(s1.parser) THEN
               LET s2 == NumberEnd(L, s1, thr)
                   r2 == ParserPush(L, s2.parser, tok.lower)
                   s3 == [s2 EXCEPT !.parser = r2.p]
               IN IF r2.st = "ok" THEN [s3 EXCEPT !.tracker = Advanced(@, pos)]
                  ELSE IF r2.st = "incomplete" /\ ~Bug_RetryIncompleteBreaks THEN s3   \* repaired: a linking word restarting the parser is skipped
                  ELSE Outside(L, s3, tok, linking)
          ELSE Outside(L, s1, tok, linking)
Finalize(L, s, thr) == IF HasNumber(s.parser) THEN NumberEnd(L, s, thr) ELSE s

RECURSIVE ScanFrom(_, _, _, _, _, _)
ScanFrom(L, s, stream, i, thr, linking) ==
  IF i > Len(stream) THEN s ELSE ScanFrom(L, PushTok(L, s, i - 1, stream[i], thr, linking), stream, i + 1, thr, linking)
Batch(L, stream, thr, linking) == Finalize(L, ScanFrom(L, NewScanner, stream, 1, thr, linking), thr).tracker.matches

(* ---- S5: the lazy iterator: repeatedly call next() ---- *)
RECURSIVE IterRun(_, _, _, _, _, _, _)
IterRun(L, s, stream, pulled, thr, linking, acc) ==
  IF s.tracker.matches # <<>> THEN
      IterRun(L, [s EXCEPT !.tracker.matches = Tail(@)], stream, pulled, thr, linking,
              Append(acc, [occ |-> Head(s.tracker.matches), pulled |-> pulled]))
  ELSE IF pulled < Len(stream) THEN
      IterRun(L, PushTok(L, s, pulled, stream[pulled + 1], thr, linking), stream, pulled + 1, thr, linking, acc)
  ELSE LET f == Finalize(L, s, thr) IN
       IF f.tracker.matches # <<>> THEN IterRun(L, f, stream, pulled, thr, linking, acc) ELSE acc
Iter(L, stream, thr, linking) == IterRun(L, NewScanner, stream, 0, thr, linking, <<>>)


(* ---- S8: NumTracker::replace on a token vector (replace_numbers_in_stream) ---- *)
\* the occurrences are spliced in REVERSE order: drain(start..end) then insert(start), so that earlier spans keep their indices.
\* items: [id (index of a kept input token, -1 for a replacement), t (text), from (ids handed to the Replace constructor)]
RECURSIVE SpliceRev(_, _, _)
SpliceRev(items, occs, k) ==
  IF k = 0 THEN items
  ELSE LET o == occs[k]
           taken == SubSeq(items, o.s + 1, o.e)
           repl == [id |-> 0 - 1, t |-> o.t, from |-> [j \in 1..Len(taken) |-> taken[j].id]]
       IN SpliceRev(SubSeq(items, 1, o.s) \o <<repl>> \o SubSeq(items, o.e + 1, Len(items)), occs, k - 1)
ReplaceInStream(L, stream, thr, linking) ==
  LET occs == Batch(L, stream, thr, linking)
      items == [i \in 1..Len(stream) |-> [id |-> i - 1, t |-> stream[i].text, from |-> <<>>]]
  IN [out |-> SpliceRev(items, occs, Len(occs)),
      calls |-> [k \in 1..Len(occs) |-> [data |-> occs[Len(occs) + 1 - k].t]]]

\* tokens from plain texts (no hints)
Tok(text) == [text |-> text, lower |-> Lower(text), sep |-> FALSE, nan |-> FALSE]
=============================================================================
