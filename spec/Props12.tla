----------------------------- MODULE Props12 -----------------------------
(***************************************************************************)
(* P_C12 -- the digit-builder property as an ACTION property over          *)
(* *observations* (what the public API + the frozen hook show), stated     *)
(* digit-wise so that it holds for buffers of any length and never         *)
(* mentions how the code achieves anything.                                *)
(*   observation o = [r (rendering), b (deref buffer), len, empty, null,   *)
(*                    fz (frozen), mk (marker)]                            *)
(*   event ev = [op, a, p, q, st]                                          *)
(***************************************************************************)
EXTENDS Naturals, Sequences

LOCAL Ch(s, i) == SubSeq(s, i, i)
LOCAL AllZeros(s) == \A i \in 1..Len(s) : Ch(s, i) = "0"
LOCAL IsDigitChar(c) == c \in {"0","1","2","3","4","5","6","7","8","9"}
LOCAL IsDigits(s) == \A i \in 1..Len(s) : IsDigitChar(Ch(s, i))

Mutators12 == {"put", "pda", "shift", "fput", "push"}
Queries12  == {"peek", "is_free", "irf", "ipf", "is_ordinal"}

Lz(o) == o.len - Len(o.b)
Valid(o) ==
  /\ IsDigits(o.r)
  /\ Len(o.r) = o.len
  /\ Len(o.b) <= Len(o.r)
  /\ SubSeq(o.r, Len(o.r) - Len(o.b) + 1, Len(o.r)) = o.b      \* rendering = leading zeroes ++ buffer
  /\ AllZeros(SubSeq(o.r, 1, Len(o.r) - Len(o.b)))
  /\ o.empty = (o.r = "")
  /\ o.null = (o.b = "")

\* digit at decimal position q (0 = units); "0" beyond the length
At(b, pos) == IF pos >= Len(b) THEN "0" ELSE Ch(b, Len(b) - pos)
MaxLen(a, b) == IF Len(a) > Len(b) THEN Len(a) ELSE Len(b)
SameExcept(b1, b2, lo, hi) == \A q \in 0..MaxLen(b1, b2) : (q < lo \/ q > hi) => At(b1, q) = At(b2, q)

RECURSIVE NonZero(_)
NonZero(s) == IF s = "" THEN "" ELSE (IF Ch(s, 1) = "0" THEN "" ELSE Ch(s, 1)) \o NonZero(SubSeq(s, 2, Len(s)))
RECURSIVE IsSubseq(_, _)
IsSubseq(a, b) == IF a = "" THEN TRUE ELSE IF b = "" THEN FALSE
                  ELSE IF Ch(a, 1) = Ch(b, 1) THEN IsSubseq(SubSeq(a, 2, Len(a)), SubSeq(b, 2, Len(b)))
                  ELSE IsSubseq(a, SubSeq(b, 2, Len(b)))
KeepsNonZero(b1, b2) == IsSubseq(NonZero(b1), NonZero(b2))

PutEffect(o, o2, d) ==
  IF o.b = "" /\ d = "0" THEN o2.b = "" /\ Lz(o2) = Lz(o) + 1        \* a leading zero: counted and kept
  ELSE /\ ~AllZeros(d) /\ Lz(o2) = Lz(o)
       /\ Len(o2.b) = MaxLen(o.b, d)
       /\ \A q \in 0..(Len(d) - 1) : At(o.b, q) = "0" /\ At(o2.b, q) = Ch(d, Len(d) - q)   \* target slots were free
       /\ SameExcept(o.b, o2.b, 0, Len(d) - 1)
PutDigitAtEffect(o, o2, c, pos) ==
  /\ c # "0" /\ At(o.b, pos) = "0" /\ At(o2.b, pos) = c
  /\ SameExcept(o.b, o2.b, pos, pos) /\ Lz(o2) = Lz(o)
ShiftEffect(o, o2, p) ==
  IF p = 0 THEN o2.b = o.b /\ Lz(o2) = Lz(o)
  ELSE LET grp(q) == At(o.b, q)
           groupZero == \A q \in 0..(p - 1) : grp(q) = "0"
           Moved == /\ \A q \in 0..(p - 1) : At(o2.b, q) = "0"
                    /\ \A q \in 0..(p - 1) : grp(q) # "0" => At(o.b, q + p) = "0"       \* destination was free
                    /\ \A q \in 0..(p - 1) : At(o2.b, q + p) = (IF grp(q) # "0" THEN grp(q) ELSE At(o.b, q + p))
                    /\ SameExcept(o.b, o2.b, 0, 2 * p - 1)
           ImplicitOne == /\ At(o.b, p) = "0" /\ At(o2.b, p) = "1" /\ SameExcept(o.b, o2.b, p, p)
           SameValue == \A q \in 0..MaxLen(o.b, o2.b) : At(o.b, q) = At(o2.b, q)
       IN /\ Lz(o2) = Lz(o)
          /\ IF groupZero THEN ImplicitOne \/ SameValue ELSE Moved
PushEffect(o, o2, d) == o2.b = o.b \o d /\ Lz(o2) = Lz(o)

\* which conjunct failed ("" = none): used for reporting and for known-finding matching
StepVerdict(ev, o, o2) ==
  IF ~Valid(o2) THEN "invalid-rendering"
  ELSE IF ev.st = "panic" THEN "panic"
  ELSE IF ev.op \in Queries12 /\ o2 # o THEN "query-changed-state"
  ELSE IF ev.op \in Mutators12 /\ ev.st # "ok" /\ o2 # o THEN "failed-step-changed-state"
  ELSE IF ev.op \in Mutators12 /\ o.fz /\ ev.st # "frozen" THEN "frozen-not-refused"
  ELSE IF ev.op \in Mutators12 /\ ev.st = "ok" /\ (o2.fz # o.fz \/ o2.mk # o.mk) THEN "mutator-changed-frozen-or-marker"
  ELSE IF ev.op \in {"put", "pda", "shift", "push"} /\ ev.st = "ok" /\ ~KeepsNonZero(o.b, o2.b) THEN "digit-lost"
  ELSE IF ev.op = "put" /\ ev.st = "ok" /\ ~PutEffect(o, o2, ev.a) THEN "put-effect"
  ELSE IF ev.op = "pda" /\ ev.st = "ok" /\ ~PutDigitAtEffect(o, o2, ev.a, ev.p) THEN "put-digit-at-effect"
  ELSE IF ev.op = "shift" /\ ev.st = "ok" /\ ~ShiftEffect(o, o2, ev.p) THEN "shift-effect"
  ELSE IF ev.op = "push" /\ ev.st = "ok" /\ ~PushEffect(o, o2, ev.a) THEN "push-effect"
  ELSE IF ev.op = "fput" /\ ev.st = "ok" /\ Lz(o2) # Lz(o) THEN "fput-leading-zeroes"
  ELSE IF ev.op = "freeze" /\ o2 # [o EXCEPT !.fz = TRUE] THEN "freeze-effect"
  ELSE IF ev.op = "reset" /\ ~(o2.r = "" /\ o2.b = "" /\ ~o2.fz /\ o2.mk = "none") THEN "reset-effect"
  ELSE ""
StepOK(ev, o, o2) == StepVerdict(ev, o, o2) = ""
=============================================================================
