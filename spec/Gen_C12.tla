------------------------------ MODULE Gen_C12 ------------------------------
(***************************************************************************)
(* Generator for C12: turns the operation alphabet of MC_C12 into concrete *)
(* behaviours of S1 to be replayed on the real DigitString:                *)
(*  - EVERY operation sequence of length ExLen over the exhaustive         *)
(*    alphabet (these are exactly the paths of MC_C12's state graph up to  *)
(*    that depth, prefixes included);                                      *)
(*  - RandN pseudo-random sequences of length RandLen over a wider         *)
(*    alphabet (long digit strings, positions up to 40), derived from Seed *)
(*    by a linear congruential generator written in TLA+ (deterministic).  *)
(* Output: one JSON request per line, {i, ops: [{op,a,p,q}...]}.           *)
(***************************************************************************)
EXTENDS Naturals, Sequences, FiniteSets, TLC, Json, IOUtils, SequencesExt

CONSTANTS DigitArgs, Digits1, Positions,          \* exhaustive alphabet (as MC_C12)
          RDigitArgs, RDigits1, RPositions,       \* random alphabet
          ExLen, RandN, RandLen, Seed

OpsOver(DA, D1, Pos) ==
       [op : {"put", "fput", "push"}, a : DA, p : {0}, q : {0}]
  \cup [op : {"pda"}, a : D1, p : Pos, q : {0}]
  \cup [op : {"shift", "peek", "is_free", "ipf"}, a : {""}, p : Pos, q : {0}]
  \cup [op : {"irf"}, a : {""}, p : Pos, q : Pos]
  \cup [op : {"freeze", "reset"}, a : {""}, p : {0}, q : {0}]

ExOps == SetToSeq(OpsOver(DigitArgs, Digits1, Positions))
RdOps == SetToSeq(OpsOver(RDigitArgs, RDigits1, RPositions))
N  == Len(ExOps)
RN == Len(RdOps)

RECURSIVE Pow(_, _)
Pow(b, e) == IF e = 0 THEN 1 ELSE b * Pow(b, e - 1)

\* the j-th (0-based) sequence of length k in base N
ExSeq(j, k) == [d \in 1..k |-> ExOps[((j \div Pow(N, k - d)) % N) + 1]]
ExAll == [j \in 1..Pow(N, ExLen) |-> [i |-> j, ops |-> ExSeq(j - 1, ExLen)]]

Lcg(x) == (x * 1021 + 24691) % 1048576
RECURSIVE RandOps(_, _)
RandOps(x, n) == IF n = 0 THEN <<>> ELSE <<RdOps[((x \div 16) % RN) + 1]>> \o RandOps(Lcg(x), n - 1)
RECURSIVE Iter(_, _)
Iter(x, n) == IF n = 0 THEN x ELSE Iter(Lcg(x), n - 1)
\* the r-th random sequence starts from a state that depends on Seed and r
RandAll == [r \in 1..RandN |->
              [i |-> Pow(N, ExLen) + r,
               ops |-> RandOps(Iter((Seed * 7919 + r * 104729) % 1048576, 3), RandLen)]]

ASSUME ndJsonSerialize(IOEnv.OUT, ExAll \o RandAll)
ASSUME PrintT(<<"GEN", Len(ExAll), Len(RandAll), N, RN>>)
=============================================================================
