SPECIFICATION Spec
CONSTANTS
  Bug_ShiftNonAtomic = FALSE
  Bug_PushIgnoresFrozen = FALSE
  Bug_PositionFreeUnderflow = FALSE
  L = "fr"
  Alphabet = {"zéro", "un", "deux", "vingt", "cent", "mille", "et", "virgule", "troisième", "vingtième", "vingt-cinq", "plus", "chats", ", ", ".", " "}
  MaxLen = 2
  Thrs = {"0", "10", "2"}
  Hints = FALSE
INVARIANT Incremental
INVARIANT WellFormed
INVARIANT Policy
INVARIANT Revalidates
INVARIANT ValidatedIsOne
INVARIANT IterEqBatch
INVARIANT LookaheadOK
INVARIANT HintsHonoured
INVARIANT StreamRewriteOK
CHECK_DEADLOCK FALSE
