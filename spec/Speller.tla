------------------------------- MODULE Speller -------------------------------
(***************************************************************************)
(* P-side oracle: the spelling grammars of the seven languages.            *)
(* Cardinal(L, gs, v) is the standard spelling (variant v) of the number   *)
(* whose 3-digit groups are gs = <<units, thousands, millions, billions>>  *)
(* (each 0..999; TLC integers are 32-bit, the property goes to 10^12).     *)
(* The grammars follow the orthographic norms of each language and the     *)
(* forms pinned by the repository's tests; they are written independently  *)
(* of the implementation (nothing here looks at how the code decodes).     *)
(* Variants(L) lists the accepted orthographic variants:                   *)
(*  en  us-hyphen | us-space | uk-and                                      *)
(*  fr  trad | spaces | hyphens (1990, hyphens everywhere incl. -et-)      *)
(*      each also with regional tens septante/huitante/nonante             *)
(*  es  masc | fem | noy (conjunction y left out)  (apocope un/veintiún    *)
(*      before mil/millones)                                               *)
(*  pt  eu | br | fem                                                      *)
(*  it  compound (elision) | noelide | spaced (thousands group apart) |    *)
(*      conj (e between the groups)                                        *)
(*  de  std | bare (no ein before hundert/tausend) | ss (dreissig) |       *)
(*      split (morphemes apart) | groups (thousands compound, rest) |      *)
(*      groups3 (hundreds apart too); always eine Million / Milliarde      *)
(*  nl  std | accent (één) | split                                         *)
(***************************************************************************)
EXTENDS Chars, Num, TLC

NonEmpty(ws) == SelectSeq(ws, LAMBDA w : w # "")
JoinW(ws) == JoinWith(NonEmpty(ws), " ")
IsZero(gs) == gs[1] = 0 /\ gs[2] = 0 /\ gs[3] = 0 /\ gs[4] = 0
RECURSIVE MapCh(_, _, _)
MapCh(s, from, to) == IF s = "" THEN "" ELSE (IF Ch(s, 1) = from THEN to ELSE Ch(s, 1)) \o MapCh(SubSeq(s, 2, Len(s)), from, to)
RECURSIVE ReplaceStr(_, _, _)
ReplaceStr(s, from, to) == IF s = "" THEN ""
   ELSE IF StartsWith(s, from) THEN to \o ReplaceStr(SubSeq(s, Len(from) + 1, Len(s)), from, to)
   ELSE Ch(s, 1) \o ReplaceStr(SubSeq(s, 2, Len(s)), from, to)
\* last word of a phrase (after the last blank or hyphen) and what precedes it
LastCut(s) == LET P == {i \in 1..Len(s) : Ch(s, i) = " " \/ Ch(s, i) = "-"} IN
              IF P = {} THEN 0 ELSE CHOOSE i \in P : \A j \in P : j <= i
HeadPart(s) == SubSeq(s, 1, LastCut(s))
LastWord(s) == SubSeq(s, LastCut(s) + 1, Len(s))

(* ======================================================================= *)
(* English                                                                 *)
EN1 == <<"one", "two", "three", "four", "five", "six", "seven", "eight", "nine", "ten", "eleven", "twelve", "thirteen",
         "fourteen", "fifteen", "sixteen", "seventeen", "eighteen", "nineteen">>
EN10 == <<"", "twenty", "thirty", "forty", "fifty", "sixty", "seventy", "eighty", "ninety">>
En99(n, hy) == IF n < 20 THEN EN1[n] ELSE EN10[n \div 10] \o (IF n % 10 = 0 THEN "" ELSE hy \o EN1[n % 10])
En999(g, hy, conj) == LET h == g \div 100  r == g % 100 IN
   (IF h > 0 THEN <<EN1[h], "hundred">> ELSE <<>>)
   \o (IF r > 0 THEN (IF h > 0 /\ conj THEN <<"and">> ELSE <<>>) \o <<En99(r, hy)>> ELSE <<>>)
EnScale == <<"", "thousand", "million", "billion">>
EnCard(gs, v) ==
  IF IsZero(gs) THEN "zero" ELSE
  LET hy == IF v = "us-space" THEN " " ELSE "-"
      conj == v = "uk-and"
      higher(i) == \E j \in (i + 1)..4 : gs[j] # 0
      part(i) == IF gs[i] = 0 THEN <<>>
                 ELSE (IF i = 1 /\ conj /\ higher(1) /\ gs[1] < 100 THEN <<"and">> ELSE <<>>)
                      \o En999(gs[i], hy, conj) \o (IF i > 1 THEN <<EnScale[i]>> ELSE <<>>)
  IN JoinW(part(4) \o part(3) \o part(2) \o part(1))

(* ======================================================================= *)
(* French                                                                  *)
FRU == <<"un", "deux", "trois", "quatre", "cinq", "six", "sept", "huit", "neuf", "dix", "onze", "douze", "treize", "quatorze",
         "quinze", "seize", "dix-sept", "dix-huit", "dix-neuf">>
FRT == <<"dix", "vingt", "trente", "quarante", "cinquante", "soixante", "soixante", "quatre-vingt", "quatre-vingt">>
FRRT == <<"dix", "vingt", "trente", "quarante", "cinquante", "soixante", "septante", "huitante", "nonante">>
FrJoin(a, b) == IF a = "" THEN b ELSE IF b = "" THEN a ELSE a \o " " \o b
\* n in 1..99 ; last: nothing follows inside the number (plural s of vingt)
Fr99(n, regional, last) ==
  IF n < 20 THEN FRU[n]
  ELSE LET t == n \div 10  u == n % 10 IN
    IF regional THEN (IF u = 0 THEN FRRT[t] ELSE IF u = 1 THEN FRRT[t] \o " et un" ELSE FRRT[t] \o "-" \o FRU[u])
    ELSE IF t \in {7, 9} THEN (IF t = 7 /\ u = 1 THEN "soixante et onze" ELSE FRT[t] \o "-" \o FRU[10 + u])
    ELSE IF t = 8 THEN (IF u = 0 THEN (IF last THEN "quatre-vingts" ELSE "quatre-vingt") ELSE "quatre-vingt-" \o FRU[u])
    ELSE IF u = 0 THEN FRT[t] ELSE IF u = 1 THEN FRT[t] \o " et un" ELSE FRT[t] \o "-" \o FRU[u]
Fr999(g, regional, last) ==
  LET h == g \div 100  r == g % 100 IN
  FrJoin(IF h = 0 THEN "" ELSE IF h = 1 THEN "cent" ELSE FRU[h] \o (IF r = 0 /\ last THEN " cents" ELSE " cent"),
         IF r = 0 THEN "" ELSE Fr99(r, regional, last))
FrTrad(gs, regional) ==
  IF IsZero(gs) THEN "zéro" ELSE
  FrJoin(FrJoin(FrJoin(IF gs[4] = 0 THEN "" ELSE Fr999(gs[4], regional, TRUE) \o (IF gs[4] > 1 THEN " milliards" ELSE " milliard"),
                       IF gs[3] = 0 THEN "" ELSE Fr999(gs[3], regional, TRUE) \o (IF gs[3] > 1 THEN " millions" ELSE " million")),
                IF gs[2] = 0 THEN "" ELSE IF gs[2] = 1 THEN "mille" ELSE Fr999(gs[2], regional, FALSE) \o " mille"),
         IF gs[1] = 0 THEN "" ELSE Fr999(gs[1], regional, TRUE))
\* hyphens inside every three-digit group, blanks between the groups and the scale words: "deux mille cent-vingt"
FrGroupHyph(gs) ==
  LET H(g, last) == MapCh(Fr999(g, FALSE, last), " ", "-") IN
  IF IsZero(gs) THEN "zéro" ELSE
  FrJoin(FrJoin(FrJoin(IF gs[4] = 0 THEN "" ELSE H(gs[4], TRUE) \o (IF gs[4] > 1 THEN " milliards" ELSE " milliard"),
                       IF gs[3] = 0 THEN "" ELSE H(gs[3], TRUE) \o (IF gs[3] > 1 THEN " millions" ELSE " million")),
                IF gs[2] = 0 THEN "" ELSE IF gs[2] = 1 THEN "mille" ELSE H(gs[2], FALSE) \o " mille"),
         IF gs[1] = 0 THEN "" ELSE H(gs[1], TRUE))
FrCard(gs, v) ==
  LET regional == EndsWith(v, "+regional")
      style == IF regional THEN DropEnd(v, 9) ELSE v
      t == FrTrad(gs, regional)
  IN IF v = "grouphyphens" THEN FrGroupHyph(gs)
     ELSE IF style = "spaces" THEN MapCh(t, "-", " ") ELSE IF style = "hyphens" THEN MapCh(t, " ", "-") ELSE t

(* ======================================================================= *)
(* Spanish                                                                 *)
ES1 == <<"uno", "dos", "tres", "cuatro", "cinco", "seis", "siete", "ocho", "nueve", "diez", "once", "doce", "trece", "catorce",
         "quince", "dieciséis", "diecisiete", "dieciocho", "diecinueve", "veinte", "veintiuno", "veintidós", "veintitrés",
         "veinticuatro", "veinticinco", "veintiséis", "veintisiete", "veintiocho", "veintinueve">>
ES10 == <<"", "", "treinta", "cuarenta", "cincuenta", "sesenta", "setenta", "ochenta", "noventa">>
ES100 == <<"ciento", "doscientos", "trescientos", "cuatrocientos", "quinientos", "seiscientos", "setecientos", "ochocientos", "novecientos">>
RECURSIVE Es99(_, _, _)
Es99(n, apoc, fem) ==
  IF n < 30 THEN <<IF n = 1 THEN (IF apoc THEN "un" ELSE IF fem THEN "una" ELSE "uno")
                   ELSE IF n = 21 THEN (IF apoc THEN "veintiún" ELSE IF fem THEN "veintiuna" ELSE "veintiuno")
                   ELSE ES1[n]>>
  ELSE IF n % 10 = 0 THEN <<ES10[n \div 10]>> ELSE <<ES10[n \div 10], "y">> \o Es99(n % 10, apoc, fem)
DropY(ws) == SelectSeq(ws, LAMBDA w : w # "y")
Es999(g, apoc, fem) ==
  IF g = 100 THEN <<"cien">> ELSE
  LET h == g \div 100  r == g % 100
      hw == IF h = 0 THEN "" ELSE IF fem /\ h > 1 THEN DropEnd(ES100[h], 2) \o "as" ELSE ES100[h]
  IN (IF h > 0 THEN <<hw>> ELSE <<>>) \o (IF r > 0 THEN Es99(r, apoc, fem) ELSE <<>>)
EsBelowMillion(T, U, apocLast, fem) ==
  (IF T > 0 THEN (IF T > 1 THEN Es999(T, TRUE, fem) ELSE <<>>) \o <<"mil">> ELSE <<>>)
  \o (IF U > 0 THEN Es999(U, apocLast, fem) ELSE <<>>)
EsCard(gs, v) ==
  IF IsZero(gs) THEN "cero" ELSE
  LET fem == v = "fem"
      mpart == IF gs[4] = 0 /\ gs[3] = 0 THEN <<>>
               ELSE IF gs[4] = 0 /\ gs[3] = 1 THEN <<"un", "millón">>
               ELSE EsBelowMillion(gs[4], gs[3], TRUE, FALSE) \o <<"millones">>
      ws == mpart \o EsBelowMillion(gs[2], gs[1], FALSE, fem)
  IN JoinW(IF v = "noy" THEN DropY(ws) ELSE ws)

(* ======================================================================= *)
(* Portuguese                                                              *)
PT1 == <<"um", "dois", "três", "quatro", "cinco", "seis", "sete", "oito", "nove", "dez", "onze", "doze", "treze", "catorze",
         "quinze", "dezasseis", "dezassete", "dezoito", "dezanove">>
PT1BR == (14 :> "quatorze") @@ (16 :> "dezesseis") @@ (17 :> "dezessete") @@ (19 :> "dezenove")
PT10 == <<"", "vinte", "trinta", "quarenta", "cinquenta", "sessenta", "setenta", "oitenta", "noventa">>
PT100 == <<"cento", "duzentos", "trezentos", "quatrocentos", "quinhentos", "seiscentos", "setecentos", "oitocentos", "novecentos">>
PtUnit(u, br, fem) == IF fem /\ u = 1 THEN "uma" ELSE IF fem /\ u = 2 THEN "duas" ELSE IF br /\ u \in DOMAIN PT1BR THEN PT1BR[u] ELSE PT1[u]
Pt999(g, br, fem) ==
  IF g = 100 THEN <<"cem">> ELSE
  LET h == g \div 100  r == g % 100
      hw == IF h = 0 THEN "" ELSE IF fem /\ h > 1 THEN DropEnd(PT100[h], 2) \o "as" ELSE PT100[h]
  IN (IF h > 0 THEN <<hw>> ELSE <<>>)
     \o (IF r = 0 THEN <<>>
         ELSE (IF h > 0 THEN <<"e">> ELSE <<>>)
              \o (IF r < 20 THEN <<PtUnit(r, br, fem)>>
                  ELSE <<PT10[r \div 10]>> \o (IF r % 10 = 0 THEN <<>> ELSE <<"e", PtUnit(r % 10, FALSE, fem)>>)))
PtCard(gs, v) ==
  IF IsZero(gs) THEN "zero" ELSE
  LET br == v = "br"  fem == v = "fem"
      w(i) == IF gs[i] = 0 THEN <<>>
              ELSE IF i = 1 THEN Pt999(gs[1], br, fem)
              ELSE IF i = 2 THEN (IF gs[2] > 1 THEN Pt999(gs[2], br, fem) ELSE <<>>) \o <<"mil">>
              ELSE IF i = 3 THEN Pt999(gs[3], br, FALSE) \o <<IF gs[3] = 1 THEN "milhão" ELSE "milhões">>
              ELSE Pt999(gs[4], br, FALSE) \o <<IF gs[4] = 1 THEN "bilhão" ELSE "bilhões">>
      higher(i) == \E j \in (i + 1)..4 : gs[j] # 0
      lower(i) == \E j \in 1..(i - 1) : gs[j] # 0
      \* "e" before the last non-zero group when it is below 100 or a round hundred (units and thousands groups)
      conj(i) == gs[i] # 0 /\ higher(i) /\ ~lower(i) /\ i <= 2 /\ (gs[i] < 100 \/ gs[i] % 100 = 0)
      part(i) == (IF conj(i) THEN <<"e">> ELSE <<>>) \o w(i)
  IN JoinW(part(4) \o part(3) \o part(2) \o part(1))

(* ======================================================================= *)
(* Italian                                                                 *)
IT1 == <<"uno", "due", "tre", "quattro", "cinque", "sei", "sette", "otto", "nove", "dieci", "undici", "dodici", "tredici",
         "quattordici", "quindici", "sedici", "diciassette", "diciotto", "diciannove">>
IT10 == <<"", "venti", "trenta", "quaranta", "cinquanta", "sessanta", "settanta", "ottanta", "novanta">>
It99(n, final) ==
  IF n < 20 THEN IT1[n]
  ELSE LET t == n \div 10  u == n % 10
           b == IF u \in {1, 8} THEN DropEnd(IT10[t], 1) ELSE IT10[t]
       IN IF u = 0 THEN IT10[t] ELSE b \o (IF u = 3 /\ final THEN "tré" ELSE IT1[u])
It999(g, final, elide) ==
  LET h == g \div 100  r == g % 100
      c == IF h = 0 THEN "" ELSE (IF h > 1 THEN IT1[h] ELSE "") \o (IF elide /\ r \div 10 = 8 THEN "cent" ELSE "cento")
  IN c \o (IF r > 0 THEN It99(r, final) ELSE "")
ItCard(gs, v) ==
  IF IsZero(gs) THEN "zero" ELSE
  LET elide == v # "noelide"
      big(i, sing, plur) == IF gs[i] = 0 THEN <<>> ELSE IF gs[i] = 1 THEN <<"un", sing>> ELSE <<It999(gs[i], TRUE, elide), plur>>
      th == IF gs[2] = 0 THEN "" ELSE IF gs[2] = 1 THEN "mille" ELSE It999(gs[2], FALSE, elide) \o "mila"
      un == IF gs[1] = 0 THEN "" ELSE It999(gs[1], TRUE, elide)
      low == IF v = "spaced" THEN JoinW(<<th, un>>)
             ELSE IF v = "conj" THEN (IF th # "" /\ un # "" THEN JoinW(<<th, "e", un>>) ELSE th \o un)
             ELSE th \o un
      bigs == big(4, "miliardo", "miliardi") \o big(3, "milione", "milioni")
  IN JoinW(bigs \o (IF v = "conj" /\ bigs # <<>> /\ th = "" /\ un # "" THEN <<"e">> ELSE <<>>) \o <<low>>)

(* ======================================================================= *)
(* German: morpheme sequences, compounded or split                         *)
DE1 == <<"ein", "zwei", "drei", "vier", "fünf", "sechs", "sieben", "acht", "neun", "zehn", "elf", "zwölf", "dreizehn", "vierzehn",
         "fünfzehn", "sechzehn", "siebzehn", "achtzehn", "neunzehn">>
DE10 == <<"", "zwanzig", "dreißig", "vierzig", "fünfzig", "sechzig", "siebzig", "achtzig", "neunzig">>
De99M(n, final) ==
  IF n = 1 THEN <<IF final THEN "eins" ELSE "ein">>
  ELSE IF n < 20 THEN <<DE1[n]>>
  ELSE IF n % 10 = 0 THEN <<DE10[n \div 10]>> ELSE <<DE1[n % 10], "und", DE10[n \div 10]>>
De999M(g, final, ein) ==
  LET h == g \div 100  r == g % 100 IN
  (IF h > 0 THEN (IF h > 1 \/ ein THEN <<DE1[h]>> ELSE <<>>) \o <<"hundert">> ELSE <<>>)
  \o (IF r > 0 THEN De99M(r, final) ELSE <<>>)
DeCard(gs, v) ==
  IF IsZero(gs) THEN "null" ELSE
  LET ein == v # "bare"
      split == v = "split"
      glue(ms) == IF split THEN JoinW(ms) ELSE Concat(ms)
      big(i, sing, plur) == IF gs[i] = 0 THEN <<>>
                            ELSE IF gs[i] = 1 THEN <<"eine", sing>>
                            ELSE <<glue(De999M(gs[i], FALSE, ein)), plur>>
      th == IF gs[2] = 0 THEN <<>> ELSE (IF gs[2] > 1 \/ ein THEN De999M(gs[2], FALSE, ein) ELSE <<>>) \o <<"tausend">>
      un == IF gs[1] = 0 THEN <<>> ELSE De999M(gs[1], TRUE, ein)
      \* groups: the thousands compound and the rest as two words; groups3: hundreds apart as well
      hun == IF gs[1] >= 100 THEN (IF gs[1] \div 100 > 1 \/ ein THEN <<DE1[gs[1] \div 100]>> ELSE <<>>) \o <<"hundert">> ELSE <<>>
      rest == IF gs[1] % 100 > 0 THEN De99M(gs[1] % 100, TRUE) ELSE <<>>
      small == gs[1] % 100 >= 1 /\ gs[1] % 100 <= 12
      low == IF v = "conj" /\ small /\ (gs[1] >= 100 \/ gs[2] > 0) THEN <<Concat(th \o hun \o <<"und">> \o rest)>>
             ELSE IF v = "groups" THEN <<glue(th), glue(un)>>
             ELSE IF v = "groups3" THEN <<glue(th), glue(hun), glue(rest)>>
             ELSE <<glue(th \o un)>>
      s == JoinW(big(4, "milliarde", "milliarden") \o big(3, "million", "millionen") \o low)
  IN IF v = "ss" THEN ReplaceStr(s, "ß", "ss") ELSE s

(* ======================================================================= *)
(* Dutch                                                                   *)
NL1 == <<"een", "twee", "drie", "vier", "vijf", "zes", "zeven", "acht", "negen", "tien", "elf", "twaalf", "dertien", "veertien",
         "vijftien", "zestien", "zeventien", "achttien", "negentien">>
NL10 == <<"", "twintig", "dertig", "veertig", "vijftig", "zestig", "zeventig", "tachtig", "negentig">>
Nl99M(n, split) ==
  IF n < 20 THEN <<NL1[n]>>
  ELSE IF n % 10 = 0 THEN <<NL10[n \div 10]>>
  ELSE <<NL1[n % 10], IF EndsWith(NL1[n % 10], "e") /\ ~split THEN "ën" ELSE "en", NL10[n \div 10]>>
Nl999M(g, split) ==
  LET h == g \div 100  r == g % 100 IN
  (IF h > 0 THEN (IF h > 1 THEN <<NL1[h]>> ELSE <<>>) \o <<"honderd">> ELSE <<>>) \o (IF r > 0 THEN Nl99M(r, split) ELSE <<>>)
NlCard(gs, v) ==
  IF IsZero(gs) THEN "nul" ELSE
  LET split == v = "split"
      glue(ms) == IF split THEN JoinW(ms) ELSE Concat(ms)
      one == IF v = "accent" THEN "één" ELSE "een"
      big(i, w) == IF gs[i] = 0 THEN <<>> ELSE <<IF gs[i] = 1 THEN one ELSE glue(Nl999M(gs[i], split)), w>>
      th == IF gs[2] = 0 THEN <<>> ELSE <<glue((IF gs[2] > 1 THEN Nl999M(gs[2], split) ELSE <<>>) \o <<"duizend">>)>>
      un == IF gs[1] = 0 THEN <<>> ELSE <<IF gs[1] = 1 /\ v = "accent" /\ IsZero([gs EXCEPT ![1] = 0]) THEN "één" ELSE glue(Nl999M(gs[1], split))>>
      small == gs[1] % 100 >= 1 /\ gs[1] % 100 <= 12
      hpart == IF gs[1] >= 100 THEN <<Concat((IF gs[1] \div 100 > 1 THEN <<NL1[gs[1] \div 100]>> ELSE <<>>) \o <<"honderd">>)>> ELSE <<>>
      before == big(4, "miljard") \o big(3, "miljoen") \o th \o hpart
  IN IF v = "conj" /\ small /\ before # <<>> THEN JoinW(before \o <<"en", NL1[gs[1] % 100]>>)
     ELSE JoinW(big(4, "miljard") \o big(3, "miljoen") \o th \o un)

(* ======================================================================= *)
Variants(L) ==
  CASE L = "en" -> <<"us-hyphen", "us-space", "uk-and">>
    [] L = "fr" -> <<"trad", "spaces", "hyphens", "trad+regional", "spaces+regional", "hyphens+regional", "grouphyphens">>
    [] L = "es" -> <<"masc", "fem", "noy">>
    [] L = "pt" -> <<"eu", "br", "fem">>
    [] L = "it" -> <<"compound", "noelide", "spaced", "conj">>
    [] L = "de" -> <<"std", "bare", "ss", "split", "groups", "groups3", "conj">>
    [] L = "nl" -> <<"std", "accent", "split", "conj">>
Cardinal(L, gs, v) ==
  CASE L = "en" -> EnCard(gs, v) [] L = "fr" -> FrCard(gs, v) [] L = "es" -> EsCard(gs, v) [] L = "pt" -> PtCard(gs, v)
    [] L = "it" -> ItCard(gs, v) [] L = "de" -> DeCard(gs, v) [] L = "nl" -> NlCard(gs, v)

(* ======================================================================= *)
(* Fractional parts (C05): digit by digit in English and German, k zero    *)
(* words then the cardinal of the rest in the other languages.             *)
DigitWords ==
  [ en |-> <<"zero", "one", "two", "three", "four", "five", "six", "seven", "eight", "nine">>,
    de |-> <<"null", "eins", "zwei", "drei", "vier", "fünf", "sechs", "sieben", "acht", "neun">>,
    fr |-> <<"zéro", "un", "deux", "trois", "quatre", "cinq", "six", "sept", "huit", "neuf">>,
    es |-> <<"cero", "uno", "dos", "tres", "cuatro", "cinco", "seis", "siete", "ocho", "nueve">>,
    pt |-> <<"zero", "um", "dois", "três", "quatro", "cinco", "seis", "sete", "oito", "nove">>,
    it |-> <<"zero", "uno", "due", "tre", "quattro", "cinque", "sei", "sette", "otto", "nove">>,
    nl |-> <<"nul", "een", "twee", "drie", "vier", "vijf", "zes", "zeven", "acht", "negen">> ]
DigitWord(L, c) == DigitWords[L][DigitVal(c) + 1]
Dictation(L, d) == JoinW([i \in 1..Len(d) |-> DigitWord(L, Ch(d, i))])
\* digit string of at most 6 digits -> groups
StrGs(d) == LET RECURSIVE val(_) val(s) == IF s = "" THEN 0 ELSE val(SubSeq(s, 1, Len(s) - 1)) * 10 + DigitVal(Ch(s, Len(s)))
                p == Repeat("0", 6 - Len(d)) \o d
            IN <<val(SubSeq(p, 4, 6)), val(SubSeq(p, 1, 3)), 0, 0>>
LeadZeros(d) == LET RECURSIVE f(_) f(i) == IF i > Len(d) \/ Ch(d, i) # "0" THEN i - 1 ELSE f(i + 1) IN f(1)
Frac(L, d) ==
  IF L \in {"en", "de"} THEN Dictation(L, d)
  ELSE LET z == LeadZeros(d)  rest == SubSeq(d, z + 1, Len(d)) IN
       JoinW([i \in 1..z |-> DigitWords[L][1]] \o (IF rest = "" THEN <<>> ELSE <<Cardinal(L, StrGs(rest), Variants(L)[1])>>))

(* ======================================================================= *)
(* Lexemes (C08): the spelling of n < 100 as a sequence of value lexemes,   *)
(* conjunctions, joiners and inflection removed.  Two numbers said one     *)
(* after the other may only fuse into the number whose lexemes are exactly *)
(* theirs, in order.                                                       *)
Lex99(L, n) ==
  IF n = 0 THEN <<0>>
  ELSE IF L = "fr" THEN
       (IF n <= 16 THEN <<n>> ELSE IF n < 20 THEN <<10, n - 10>>
        ELSE LET t == n \div 10  u == n % 10 IN
             IF t \in {7, 9} THEN (IF t = 7 THEN <<60>> ELSE <<4, 20>>) \o (IF u <= 6 THEN <<10 + u>> ELSE <<10, u>>)
             ELSE (IF t = 8 THEN <<4, 20>> ELSE <<t * 10>>) \o (IF u = 0 THEN <<>> ELSE <<u>>))
  ELSE IF n < 20 THEN <<n>>
  ELSE IF L = "es" /\ n < 30 THEN <<n>>
  ELSE IF L = "it" /\ n % 10 \in {1, 8} THEN <<n>>                 \* ventuno, ventotto ... are single words of their own
  ELSE IF n % 10 = 0 THEN <<n>>
  ELSE IF L \in {"de", "nl"} THEN <<n % 10, n - (n % 10)>>
  ELSE <<n - (n % 10), n % 10>>
\* the regional French tens are separate lexemes
Fused(L, a, b) == {c \in 1..99 : Lex99(L, c) = Lex99(L, a) \o Lex99(L, b)}
\* expected grouping of a dictated digit sequence: zeros attach to the following non-zero digit,
\* trailing zeros stand together
RECURSIVE DictGroups(_, _)
DictGroups(d, pending) ==
  IF d = "" THEN (IF pending = "" THEN <<>> ELSE <<pending>>)
  ELSE IF Ch(d, 1) = "0" THEN DictGroups(SubSeq(d, 2, Len(d)), pending \o "0")
  ELSE <<pending \o Ch(d, 1)>> \o DictGroups(SubSeq(d, 2, Len(d)), "")
=============================================================================
