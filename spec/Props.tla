------------------------------- MODULE Props -------------------------------
(***************************************************************************)
(* P layer: property-level predicates over OBSERVATIONS of the public API  *)
(* (token lists, occurrence lists, rewritten texts, validation results).   *)
(* Nothing here mentions how the code achieves anything.  Each predicate   *)
(* is a Verdict operator returning "" when the property holds on the       *)
(* observation and the name of the failed clause otherwise.                *)
(*   occurrence  o = [s, e, t, v, o]   (span [s,e) 0-based, text, value as  *)
(*                                       decimal string, ordinal flag)      *)
(***************************************************************************)
EXTENDS Chars, Vocab, Num, TLC

StrContains(s, sub) == \E i \in 1..(Len(s) - Len(sub) + 1) : SubSeq(s, i, i + Len(sub) - 1) = sub
First(V) == IF \E k \in DOMAIN V : V[k] # "" THEN V[CHOOSE k \in DOMAIN V : V[k] # "" /\ \A j \in DOMAIN V : j < k => V[j] = ""] ELSE ""

(* ---- spans ------------------------------------------------------------ *)
SpansOK(occs, n) ==
  /\ \A k \in 1..Len(occs) : 0 <= occs[k].s /\ occs[k].s < occs[k].e /\ occs[k].e <= n
  /\ \A k \in 1..(Len(occs) - 1) : occs[k].e <= occs[k + 1].s

(* ---- C02: splice -------------------------------------------------------- *)
RECURSIVE SpliceFrom(_, _, _, _)
SpliceFrom(toks, occs, i, k) ==     \* i: 0-based token index, k: next occurrence (1-based)
  IF i >= Len(toks) THEN ""
  ELSE IF k <= Len(occs) /\ occs[k].s = i THEN occs[k].t \o SpliceFrom(toks, occs, occs[k].e, k + 1)
  ELSE toks[i + 1] \o SpliceFrom(toks, occs, i + 1, k)
Splice(toks, occs) == SpliceFrom(toks, occs, 0, 1)

VerdictC02(text, m) ==
  IF m.tk # "ok" \/ m.rew.st # "ok" THEN "panic"
  ELSE IF Concat(m.toks) # text THEN "tokens-do-not-concatenate-to-source"
  ELSE IF \E k \in 1..Len(m.toks) : m.toks[k] = "" THEN "empty-token"
  ELSE IF ~SpansOK(m.occs, Len(m.toks)) THEN "occurrences-not-spliceable"
  ELSE IF m.rew.v # Splice(m.toks, m.occs) THEN "rewrite-differs-from-splice"
  ELSE IF m.occs = <<>> /\ m.rew.v # text THEN "no-number-but-text-changed"
  ELSE ""

(* ---- C06: well-formed occurrences -------------------------------------- *)
\* longest ordinal marker of L that ends t ("" if none)
MarkerOf(L, t) == LET M == {mk \in Markers[L] : EndsWith(t, mk) /\ Len(t) > Len(mk)} IN
                  IF M = {} THEN "" ELSE CHOOSE mk \in M : \A x \in M : Len(x) <= Len(mk)
IsPlainNumeral(L, body) ==       \* digits+ [mark digits+]
  LET mark == DecMark[L]
      P == {i \in 1..Len(body) : Ch(body, i) = mark}
  IN IF P = {} THEN body # "" /\ IsDigits(body)
     ELSE /\ Cardinality(P) = 1
          /\ LET i == CHOOSE x \in P : TRUE IN
             i > 1 /\ i < Len(body) /\ IsDigits(SubSeq(body, 1, i - 1)) /\ IsDigits(SubSeq(body, i + 1, Len(body)))
IsFractionForm(L, t) == L = "es" /\ StartsWith(t, "1/") /\ Len(t) > 2 /\ IsDigits(SubSeq(t, 3, Len(t)))
\* the reading of a numeral text as a decimal string with "." as mark; marker removed
BodyOf(L, t) == LET mk == MarkerOf(L, t) IN
                IF L = "de" /\ mk = "." THEN DropEnd(t, 1)          \* de: "21." ordinal
                ELSE IF mk # "" /\ IsPlainNumeral(L, DropEnd(t, Len(mk))) THEN DropEnd(t, Len(mk)) ELSE t
HasMarker(L, t) == BodyOf(L, t) # t
IsNumeral(L, t) == IsFractionForm(L, t) \/ IsPlainNumeral(L, BodyOf(L, t))
ReadDec(L, body) == LET mark == DecMark[L] IN
  [i \in 1..Len(body) |-> IF Ch(body, i) = mark THEN "." ELSE Ch(body, i)]
RECURSIVE SeqToStr(_)
SeqToStr(f) == IF Len(f) = 0 THEN "" ELSE f[1] \o SeqToStr(Tail(f))
\* significant digits of a canonical decimal string
SigDigits(c) == LET RECURSIVE strip(_)
                    strip(s) == IF s = "" THEN "" ELSE IF Ch(s, 1) = "." THEN strip(SubSeq(s, 2, Len(s)))
                                ELSE Ch(s, 1) \o strip(SubSeq(s, 2, Len(s)))
                IN StripLeadingZeros(strip(c))
\* f64 reading of a decimal text equals the reported value (exact up to 15 significant digits,
\* same magnitude and 15-digit prefix beyond: exact digits are kept in the text, the value is a float)
ValueMatches(v, txt) ==
  LET a == Canon(v) b == Canon(txt) IN
  IF Len(SigDigits(b)) <= 15 THEN a = b
  ELSE /\ Len(IntPart(a)) = Len(IntPart(b))
       /\ SubSeq(SigDigits(a), 1, 15) = SubSeq(SigDigits(b), 1, 15)
\* 1/n to 10 digits by long division (n < 10^8)
RECURSIVE StrNat(_)
StrNat(s) == IF s = "" THEN 0 ELSE StrNat(SubSeq(s, 1, Len(s) - 1)) * 10 + DigitVal(Ch(s, Len(s)))
RECURSIVE LongDiv(_, _, _)
LongDiv(r, n, k) == IF k = 0 THEN "" ELSE NatStr((r * 10) \div n) \o LongDiv((r * 10) % n, n, k - 1)
RecipMatches(v, nstr) ==
  IF Len(nstr) > 8 THEN TRUE
  ELSE LET n == StrNat(nstr) IN
       IF n = 0 THEN v = "inf"
       ELSE IF n = 1 THEN Canon(v) = "1"
       ELSE StartsWith(v, "0.") /\ LET d == LongDiv(1, n, 8) IN
            \/ StartsWith(SubSeq(v, 3, Len(v)) \o "00000000", SubSeq(d, 1, 7))
            \/ Len(nstr) > 6
OccVerdictC06(L, toks, o) ==
  IF ~(0 <= o.s /\ o.s < o.e /\ o.e <= Len(toks)) THEN "span-out-of-bounds"
  ELSE IF ~HasAlnum(toks[o.s + 1]) THEN "span-does-not-begin-on-a-word"
  ELSE IF ~HasAlnum(toks[o.e]) THEN "span-does-not-end-on-a-word"
  ELSE IF ~IsNumeral(L, o.t) THEN "text-is-not-a-numeral"
  ELSE IF IsFractionForm(L, o.t) THEN
       (IF o.o THEN "fraction-flagged-ordinal"
        ELSE IF ~RecipMatches(o.v, SubSeq(o.t, 3, Len(o.t))) THEN "value-differs-from-text" ELSE "")
  ELSE IF o.o # HasMarker(L, o.t) THEN "ordinal-flag-differs-from-marker"
  ELSE IF ~ValueMatches(o.v, SeqToStr(ReadDec(L, BodyOf(L, o.t)))) THEN "value-differs-from-text"
  ELSE ""
VerdictC06(L, m) ==
  IF m.tk # "ok" THEN "panic"
  ELSE LET occs == m.occs n == Len(m.toks) IN
    IF \E k \in 1..(Len(occs) - 1) : occs[k].e > occs[k + 1].s THEN "spans-overlap-or-unordered"
    ELSE First([k \in 1..Len(occs) |-> OccVerdictC06(L, m.toks, occs[k])])

(* ---- C07: scanner and validator agree ---------------------------------- *)
IsDecimalText(L, t) == StrContains(BodyOf(L, t), DecMark[L])
VerdictC07(L, m, thr) ==
  IF m.tk # "ok" \/ m.t2d.st = "panic" THEN "panic"
  ELSE LET a == First([k \in 1..Len(m.occs) |->
                  IF IsDecimalText(L, m.occs[k].t) THEN ""
                  ELSE IF m.span_t2d[k].st # "ok" THEN "span-words-rejected-by-validator"
                  ELSE IF m.span_t2d[k].v # m.occs[k].t THEN "span-words-validate-to-other-digits"
                  ELSE ""])
       IN IF a # "" THEN a
          ELSE IF thr # "0" THEN ""
          ELSE IF m.t2d.st = "ok" /\ ~(Len(m.occs_raw) = 1 /\ m.occs_raw[1].t = m.t2d.v)
               THEN "validated-phrase-not-scanned-as-one-number"
          ELSE IF m.word_t2d # <<>> THEN "valid-number-word-left-outside-occurrences"
          ELSE ""

(* ---- C09: lone-number policy, declaratively ---------------------------- *)
IsGlue(tok) == tok = "-" \/ IsWsOnly(tok)
IsLinkingTok(L, tok) == LET lo == Lower(tok) IN lo \in Linking[L] \/ lo = ConjWord[L]
Breaker(L, tok) == ~IsGlue(tok) /\ (HasAlpha(tok) \/ TrimWs(tok) = ".") /\ ~IsLinkingTok(L, tok)
\* no breaker among the tokens strictly between two occurrences (0-based [a, b))
NoBreakerBetween(L, toks, a, b) == \A i \in (a + 1)..b : ~Breaker(L, toks[i])
SameOcc(x, y) == x.s = y.s /\ x.e = y.e /\ x.t = y.t /\ x.v = y.v /\ x.o = y.o
\* The index (1-based) of a decimal-separator word that directly follows occurrence o (glue skipped)
\* and was NOT turned into a decimal mark (o is neither a decimal nor an ordinal/fraction): 0 if none.
\* The pinned test-suite requires such a dangling separator to be transparent
\* ("null komma fünfzehn" -> "0 komma 15" at threshold 10), against the statement of C09:
\* this is the known finding C09-dangling-separator; Expected is computed in both readings.
RECURSIVE FirstSignificant(_, _)
FirstSignificant(toks, i) == IF i > Len(toks) THEN 0 ELSE IF IsGlue(toks[i]) THEN FirstSignificant(toks, i + 1) ELSE i
DanglingSep(L, toks, o) ==
  LET j == FirstSignificant(toks, o.e + 1) IN
  IF j # 0 /\ Lower(toks[j]) = SepWord[L] /\ ~IsDecimalText(L, o.t) /\ ~HasMarker(L, o.t) /\ ~IsFractionForm(L, o.t) THEN j ELSE 0
Expected(L, toks, o0, thr, lenient) ==
  LET n == Len(o0)
      free(i, j) == \A x \in (o0[i].e + 1)..o0[j].s : ~Breaker(L, toks[x]) \/ (lenient /\ x = DanglingSep(L, toks, o0[i]))
      adj(i) == \/ (i > 1 /\ o0[i - 1].o = o0[i].o /\ free(i - 1, i))
                \/ (i < n /\ o0[i + 1].o = o0[i].o /\ free(i, i + 1))
      small(i) == (Len(o0[i].t) = 1 \/ o0[i].o) /\ ValueBelow(o0[i].v, thr)
  IN SelectSeq([i \in 1..n |-> [occ |-> o0[i], keep |-> ~small(i) \/ adj(i)]], LAMBDA x : x.keep)
Matches(ex, occT) == Len(ex) = Len(occT) /\ \A k \in 1..Len(ex) : SameOcc(ex[k].occ, occT[k])
VerdictC09(L, toks, occ0, occT, thr) ==
  LET ex == Expected(L, toks, occ0, thr, FALSE) IN
  IF Matches(ex, occT) THEN ""
  ELSE IF Matches(Expected(L, toks, occ0, thr, TRUE), occT) THEN "dangling-separator-not-a-breaker"
  ELSE IF \E k \in 1..Len(occT) : \A j \in 1..Len(occ0) : ~SameOcc(occ0[j], occT[k]) THEN "recognition-depends-on-threshold"
  ELSE IF Len(occT) > Len(ex) THEN "rewrites-a-small-isolated-number"
  ELSE "hides-a-number-that-is-not-small-and-isolated"
=============================================================================
