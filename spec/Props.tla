------------------------------- MODULE Props -------------------------------
(***************************************************************************)
(* P layer: property-level predicates over OBSERVATIONS of the public API  *)
(* (token lists, occurrence lists, rewritten texts, validation results).   *)
(* Nothing here mentions how the code achieves anything.  Each predicate   *)
(* is a Verdict operator returning "" when the property holds on the       *)
(* observation and the name of the failed clause otherwise.                *)
(*   occurrence  o = [s, e, t, v, o]   (span [s,e) 0-based, text, value as  *)
(*                                       decimal string, ordinal flag)      *)
(***************************************************************************)
EXTENDS Chars, Vocab, Num, TLC

StrContains(s, sub) == \E i \in 1..(Len(s) - Len(sub) + 1) : SubSeq(s, i, i + Len(sub) - 1) = sub
First(V) == IF \E k \in DOMAIN V : V[k] # "" THEN V[CHOOSE k \in DOMAIN V : V[k] # "" /\ \A j \in DOMAIN V : j < k => V[j] = ""] ELSE ""

(* ---- spans ------------------------------------------------------------ *)
SpansOK(occs, n) ==
  /\ \A k \in 1..Len(occs) : 0 <= occs[k].s /\ occs[k].s < occs[k].e /\ occs[k].e <= n
  /\ \A k \in 1..(Len(occs) - 1) : occs[k].e <= occs[k + 1].s

(* ---- C02: splice -------------------------------------------------------- *)
RECURSIVE SpliceFrom(_, _, _, _)
SpliceFrom(toks, occs, i, k) ==     \* i: 0-based token index, k: next occurrence (1-based)
  IF i >= Len(toks) THEN ""
  ELSE IF k <= Len(occs) /\ occs[k].s = i THEN occs[k].t \o SpliceFrom(toks, occs, occs[k].e, k + 1)
  ELSE toks[i + 1] \o SpliceFrom(toks, occs, i + 1, k)
Splice(toks, occs) == SpliceFrom(toks, occs, 0, 1)

VerdictC02(text, m) ==
  IF m.tk # "ok" \/ m.rew.st # "ok" THEN "panic"
  ELSE IF Concat(m.toks) # text THEN "tokens-do-not-concatenate-to-source"
  ELSE IF \E k \in 1..Len(m.toks) : m.toks[k] = "" THEN "empty-token"
  ELSE IF ~SpansOK(m.occs, Len(m.toks)) THEN "occurrences-not-spliceable"
  ELSE IF m.rew.v # Splice(m.toks, m.occs) THEN "rewrite-differs-from-splice"
  ELSE IF m.occs = <<>> /\ m.rew.v # text THEN "no-number-but-text-changed"
  ELSE ""

(* ---- C06: well-formed occurrences -------------------------------------- *)
\* longest ordinal marker of L that ends t ("" if none)
MarkerOf(L, t) == LET M == {mk \in Markers[L] : EndsWith(t, mk) /\ Len(t) > Len(mk)} IN
                  IF M = {} THEN "" ELSE CHOOSE mk \in M : \A x \in M : Len(x) <= Len(mk)
IsPlainNumeral(L, body) ==       \* digits+ [mark digits+]
  LET mark == DecMark[L]
      P == {i \in 1..Len(body) : Ch(body, i) = mark}
  IN IF P = {} THEN body # "" /\ IsDigits(body)
     ELSE /\ Cardinality(P) = 1
          /\ LET i == CHOOSE x \in P : TRUE IN
             i > 1 /\ i < Len(body) /\ IsDigits(SubSeq(body, 1, i - 1)) /\ IsDigits(SubSeq(body, i + 1, Len(body)))
IsFractionForm(L, t) == L = "es" /\ StartsWith(t, "1/") /\ Len(t) > 2 /\ IsDigits(SubSeq(t, 3, Len(t)))
\* the reading of a numeral text as a decimal string with "." as mark; marker removed
BodyOf(L, t) == LET mk == MarkerOf(L, t) IN
                IF L = "de" /\ mk = "." THEN DropEnd(t, 1)          \* de: "21." ordinal
                ELSE IF mk # "" /\ IsPlainNumeral(L, DropEnd(t, Len(mk))) THEN DropEnd(t, Len(mk)) ELSE t
HasMarker(L, t) == BodyOf(L, t) # t
IsNumeral(L, t) == IsFractionForm(L, t) \/ IsPlainNumeral(L, BodyOf(L, t))
ReadDec(L, body) == LET mark == DecMark[L] IN
  [i \in 1..Len(body) |-> IF Ch(body, i) = mark THEN "." ELSE Ch(body, i)]
RECURSIVE SeqToStr(_)
SeqToStr(f) == IF Len(f) = 0 THEN "" ELSE f[1] \o SeqToStr(Tail(f))
\* significant digits of a canonical decimal string
SigDigits(c) == LET RECURSIVE strip(_)
                    strip(s) == IF s = "" THEN "" ELSE IF Ch(s, 1) = "." THEN strip(SubSeq(s, 2, Len(s)))
                                ELSE Ch(s, 1) \o strip(SubSeq(s, 2, Len(s)))
                IN StripLeadingZeros(strip(c))
\* f64 reading of a decimal text equals the reported value (exact up to 15 significant digits,
\* same magnitude and 15-digit prefix beyond: exact digits are kept in the text, the value is a float)
\* the float may print fewer digits than the text has, and rounding to 53 bits may change the 15th digit (with carry):
\* beyond 15 significant digits the two 15-digit prefixes must be equal or differ by one unit in the last place
Pad15(d) == SubSeq(d \o "000000000000000", 1, 15)
RECURSIVE StrNat9(_)
StrNat9(s) == IF s = "" THEN 0 ELSE StrNat9(SubSeq(s, 1, Len(s) - 1)) * 10 + DigitVal(Ch(s, Len(s)))
Near15(x, y) ==      \* x, y: 15-digit strings
  LET hx == StrNat9(SubSeq(x, 1, 7))  lx == StrNat9(SubSeq(x, 8, 15))
      hy == StrNat9(SubSeq(y, 1, 7))  ly == StrNat9(SubSeq(y, 8, 15)) IN
  \/ (hx = hy /\ (lx = ly \/ lx = ly + 1 \/ ly = lx + 1))
  \/ (hx = hy + 1 /\ lx = 0 /\ ly = 99999999)
  \/ (hy = hx + 1 /\ ly = 0 /\ lx = 99999999)
ValueMatches(v, txt) ==
  LET a == Canon(v) b == Canon(txt) IN
  IF Len(SigDigits(b)) <= 15 THEN a = b
  ELSE LET pa == Pad15(SigDigits(a))  pb == Pad15(SigDigits(b))  la == Len(IntPart(a))  lb == Len(IntPart(b)) IN
       \/ (la = lb /\ Near15(pa, pb))
       \/ (la = lb + 1 /\ pa = "100000000000000" /\ pb = "999999999999999")     \* 99...9 rounded up to 100...0
\* 1/n to 10 digits by long division (n < 10^8)
RECURSIVE StrNat(_)
StrNat(s) == IF s = "" THEN 0 ELSE StrNat(SubSeq(s, 1, Len(s) - 1)) * 10 + DigitVal(Ch(s, Len(s)))
RECURSIVE LongDiv(_, _, _)
LongDiv(r, n, k) == IF k = 0 THEN "" ELSE NatStr((r * 10) \div n) \o LongDiv((r * 10) % n, n, k - 1)
RecipMatches(v, nstr) ==
  IF v = "1/" \o Canon(nstr) THEN TRUE          \* the model keeps the value of a fraction symbolic
  ELSE IF Len(nstr) > 8 THEN TRUE
  ELSE LET n == StrNat(nstr) IN
       IF n = 0 THEN v = "inf"
       ELSE IF n = 1 THEN Canon(v) = "1"
       ELSE StartsWith(v, "0.") /\ LET d == LongDiv(1, n, 8) IN
            \/ StartsWith(SubSeq(v, 3, Len(v)) \o "00000000", SubSeq(d, 1, 7))
            \/ Len(nstr) > 6
OccVerdictC06(L, toks, o) ==
  IF ~(0 <= o.s /\ o.s < o.e /\ o.e <= Len(toks)) THEN "span-out-of-bounds"
  ELSE IF ~HasAlnum(toks[o.s + 1]) THEN "span-does-not-begin-on-a-word"
  ELSE IF ~HasAlnum(toks[o.e]) THEN "span-does-not-end-on-a-word"
  ELSE IF ~IsNumeral(L, o.t) THEN "text-is-not-a-numeral"
  ELSE IF IsFractionForm(L, o.t) THEN
       (IF o.o THEN "fraction-flagged-ordinal"
        ELSE IF ~RecipMatches(o.v, SubSeq(o.t, 3, Len(o.t))) THEN "value-differs-from-text" ELSE "")
  ELSE IF o.o # HasMarker(L, o.t) THEN "ordinal-flag-differs-from-marker"
  ELSE IF ~ValueMatches(o.v, SeqToStr(ReadDec(L, BodyOf(L, o.t)))) THEN "value-differs-from-text"
  ELSE IF "pv" \in DOMAIN o /\ o.pv # "" /\ o.pv # o.v THEN "value-differs-from-text"      \* exact: the float reading of the text (std parse)
  ELSE ""
VerdictC06(L, m) ==
  IF m.tk # "ok" THEN "panic"
  ELSE LET occs == m.occs n == Len(m.toks) IN
    IF \E k \in 1..(Len(occs) - 1) : occs[k].e > occs[k + 1].s THEN "spans-overlap-or-unordered"
    ELSE LET a == First([k \in 1..Len(occs) |-> OccVerdictC06(L, m.toks, occs[k])]) IN
         IF a # "" THEN a
         ELSE IF "iter" \notin DOMAIN m THEN ""
         \* the occurrences yielded by the lazy iterator are occurrences too
         ELSE IF \E k \in 1..(Len(m.iter) - 1) : m.iter[k].e > m.iter[k + 1].s THEN "spans-overlap-or-unordered"
         ELSE First([k \in 1..Len(m.iter) |-> OccVerdictC06(L, m.toks, m.iter[k])])

(* ---- C07: scanner and validator agree ---------------------------------- *)
IsDecimalText(L, t) == StrContains(BodyOf(L, t), DecMark[L])
VerdictC07(L, m, thr) ==
  IF m.tk # "ok" \/ m.t2d.st = "panic" THEN "panic"
  ELSE LET a == First([k \in 1..Len(m.occs) |->
                  IF IsDecimalText(L, m.occs[k].t) THEN ""
                  ELSE IF m.span_t2d[k].st # "ok" THEN "span-words-rejected-by-validator"
                  ELSE IF m.span_t2d[k].v # m.occs[k].t THEN "span-words-validate-to-other-digits"
                  ELSE ""])
       IN IF a # "" THEN a
          ELSE IF thr # "0" THEN ""
          ELSE IF m.t2d.st = "ok" /\ ~(Len(m.occs_raw) = 1 /\ m.occs_raw[1].t = m.t2d.v)
               THEN "validated-phrase-not-scanned-as-one-number"
          ELSE IF m.word_t2d # <<>> THEN "valid-number-word-left-outside-occurrences"
          ELSE ""

(* ---- C09: lone-number policy, declaratively ---------------------------- *)
IsGlue(tok) == tok = "-" \/ IsWsOnly(tok)
IsLinkingTok(L, tok) == LET lo == Lower(tok) IN lo \in Linking[L] \/ lo = ConjWord[L]
\* a period is never ignored, also when the tokenizer leaves it glued to a digit token ("5." -- the statement speaks of the text,
\* not of a particular tokenization): the token without its digits and blanks is a lone period
DropDigitsWs(tok) == MapStr(LAMBDA c : IF c \in CharsOf(DigitChars) \/ IsWs(c) THEN "" ELSE c, tok)
Breaker(L, tok) == ~IsGlue(tok) /\ (HasAlpha(tok) \/ TrimWs(tok) = "." \/ DropDigitsWs(tok) = ".") /\ ~IsLinkingTok(L, tok)
\* no breaker among the tokens strictly between two occurrences (0-based [a, b))
NoBreakerBetween(L, toks, a, b) == \A i \in (a + 1)..b : ~Breaker(L, toks[i])
SameOcc(x, y) == x.s = y.s /\ x.e = y.e /\ x.t = y.t /\ x.v = y.v /\ x.o = y.o
\* The index (1-based) of a decimal-separator word that directly follows occurrence o (glue skipped)
\* and was NOT turned into a decimal mark (o is neither a decimal nor an ordinal/fraction): 0 if none.
\* The pinned test-suite requires such a dangling separator to be transparent
\* ("null komma fünfzehn" -> "0 komma 15" at threshold 10), against the statement of C09:
\* this is the known finding C09-dangling-separator; Expected is computed in both readings.
RECURSIVE FirstSignificant(_, _)
FirstSignificant(toks, i) == IF i > Len(toks) THEN 0 ELSE IF IsGlue(toks[i]) THEN FirstSignificant(toks, i + 1) ELSE i
DanglingSep(L, toks, o) ==
  LET j == FirstSignificant(toks, o.e + 1) IN
  IF j # 0 /\ Lower(toks[j]) = SepWord[L] /\ ~IsDecimalText(L, o.t) /\ ~HasMarker(L, o.t) /\ ~IsFractionForm(L, o.t) THEN j ELSE 0
Expected(L, toks, o0, thr, lenient) ==
  LET n == Len(o0)
      free(i, j) == \A x \in (o0[i].e + 1)..o0[j].s : ~Breaker(L, toks[x]) \/ (lenient /\ x = DanglingSep(L, toks, o0[i]))
      ord(i) == HasMarker(L, o0[i].t) /\ ~IsFractionForm(L, o0[i].t)       \* the kind is read from the text, not from the reported flag
      adj(i) == \/ (i > 1 /\ ord(i - 1) = ord(i) /\ free(i - 1, i))
                \/ (i < n /\ ord(i + 1) = ord(i) /\ free(i, i + 1))
      small(i) == (Len(o0[i].t) = 1 \/ ord(i)) /\ ValueBelow(o0[i].v, thr)
  IN SelectSeq([i \in 1..n |-> [occ |-> o0[i], keep |-> ~small(i) \/ adj(i)]], LAMBDA x : x.keep)
Matches(ex, occT) == Len(ex) = Len(occT) /\ \A k \in 1..Len(ex) : SameOcc(ex[k].occ, occT[k])
VerdictC09(L, toks, occ0, occT, thr) ==
  LET ex == Expected(L, toks, occ0, thr, FALSE) IN
  IF Matches(ex, occT) THEN ""
  ELSE IF Matches(Expected(L, toks, occ0, thr, TRUE), occT) THEN "dangling-separator-not-a-breaker"
  ELSE IF \E k \in 1..Len(occT) : \A j \in 1..Len(occ0) : ~SameOcc(occ0[j], occT[k]) THEN "recognition-depends-on-threshold"
  ELSE IF Len(occT) > Len(ex) THEN "rewrites-a-small-isolated-number"
  ELSE "hides-a-number-that-is-not-small-and-isolated"

\* model-vs-implementation comparison of occurrences (drift): the model keeps exact digits, the code a float
ValueAgrees(implv, modelv) == IF StartsWith(modelv, "1/") THEN RecipMatches(implv, SubSeq(modelv, 3, Len(modelv)))
                              ELSE ValueMatches(implv, modelv)
ModelOccAgrees(impl, model) == impl.s = model.s /\ impl.e = model.e /\ impl.t = model.t /\ impl.o = model.o /\ ValueAgrees(impl.v, model.v)
ModelOccsAgree(impl, model) == Len(impl) = Len(model) /\ \A k \in 1..Len(impl) : ModelOccAgrees(impl[k], model[k])

(* ---- C15: lazy = batch, bounded look-ahead, token hints ------------------ *)
\* q.toks: the stream with its hint flags (sep, nan); r: observations of the scan harness
SameOccs(a, b) == Len(a) = Len(b) /\ \A k \in 1..Len(a) : SameOcc(a[k], b[k])
RECURSIVE PrevSigIdx(_, _)
PrevSigIdx(toks, i) == IF i <= 1 THEN 0 ELSE IF ~IsGlue(toks[i - 1].t) THEN i - 1 ELSE PrevSigIdx(toks, i - 1)
\* position (0-based) in the comma-inserted twin of original token i (0-based)
TwinPos(toks, i) == i + Cardinality({j \in 1..(i + 1) : toks[j].sep})
VerdictC15(q, r) ==
  IF r.batch.st # "ok" \/ r.batch0.st # "ok" \/ r.iter.st # "ok" \/ r.batch2.st # "ok" THEN "panic"
  ELSE LET toks == q.toks  occs == r.batch.v  o0 == r.batch0.v  it == r.iter.v  n == Len(toks) IN
    IF it.before # 0 THEN "input-read-before-first-request"
    ELSE IF ~SameOccs([k \in 1..Len(it.items) |-> it.items[k]], occs) THEN "iterator-differs-from-batch"
    ELSE IF ~it.none_again THEN "iterator-restarts-after-end"
    ELSE IF \E k \in 1..Len(it.items) :
              LET J == {j \in 1..Len(o0) : o0[j].s = it.items[k].s} IN
              J = {} \/ LET j == CHOOSE x \in J : TRUE
                            bound == IF j + 2 <= Len(o0) THEN o0[j + 2].s + 1 ELSE n
                        IN it.items[k].pulled > bound
         THEN "look-ahead-beyond-second-next-number"
    ELSE IF \E k \in 1..Len(occs) : \E i \in (occs[k].s + 1)..occs[k].e : toks[i].nan THEN "nan-token-inside-occurrence"
    ELSE IF \E k \in 1..Len(occs) : \E i \in (occs[k].s + 1)..occs[k].e :
              toks[i].sep /\ PrevSigIdx(toks, i) # 0 /\ PrevSigIdx(toks, i) >= occs[k].s + 1
         THEN "separated-token-in-same-occurrence-as-predecessor"
    ELSE IF ~SameOccs([k \in 1..Len(occs) |-> [occs[k] EXCEPT !.s = TwinPos(toks, occs[k].s), !.e = TwinPos(toks, occs[k].e - 1) + 1]], r.batch2.v)
         THEN "separation-hint-differs-from-a-spoken-comma"
    ELSE IF \E c \in 1..Len(r.sep_calls) : r.sep_calls[c][2] + 1 # PrevSigIdx(toks, r.sep_calls[c][1] + 1)
         THEN "hint-asked-about-a-token-that-is-not-the-predecessor"
    ELSE ""

(* ---- C02, token-wise clause: replace_numbers_in_stream ------------------- *)
\* out: the returned tokens [id, t, from]; kept tokens have id >= 0, replacements id = -1 and from = ids handed over
RECURSIVE FlattenIds(_)
FlattenIds(out) == IF out = <<>> THEN <<>>
                   ELSE (IF Head(out).from = <<>> THEN <<Head(out).id>> ELSE Head(out).from) \o FlattenIds(Tail(out))
VerdictC02s(q, r) ==
  IF r.stream.st # "ok" \/ r.batch.st # "ok" THEN "panic"
  ELSE LET out == r.stream.v.out  calls == r.stream.v.calls  occs == r.batch.v  n == Len(q.toks)
           repl == SelectSeq(out, LAMBDA t : t.from # <<>>) IN
    IF FlattenIds(out) # [i \in 1..n |-> i - 1] THEN "tokens-lost-duplicated-or-reordered"
    ELSE IF \E k \in 1..Len(out) : out[k].from = <<>> /\ out[k].t # q.toks[out[k].id + 1].t THEN "kept-token-altered"
    ELSE IF Len(repl) # Len(occs) THEN "replacements-differ-from-occurrences"
    ELSE IF \E k \in 1..Len(repl) : repl[k].t # occs[k].t
                 \/ repl[k].from # [j \in 1..(occs[k].e - occs[k].s) |-> occs[k].s + j - 1] THEN "replacement-does-not-cover-its-occurrence"
    ELSE IF Len(calls) # Len(occs) THEN "constructor-not-called-once-per-occurrence"
    ELSE ""

(* ---- two-run properties: C11 (case), C17 (whitespace), C18 (English o), C10 (context) ---- *)
\* texts: the base text followed by its variants; ms[v][k]: observation of variant v at threshold k
\* (the harness returns them variant-major: index (v-1)*nthr + k)
At2(multi, nthr, v, k) == multi[(v - 1) * nthr + k]
TextsValues(occs) == [k \in 1..Len(occs) |-> <<occs[k].t, occs[k].v, occs[k].o>>]
VerdictC11(q, multi) ==
  LET nthr == Len(q.thrs) nv == Len(q.texts) IN
  First([x \in 1..(nv * nthr) |->
     LET v == ((x - 1) \div nthr) + 1  k == ((x - 1) % nthr) + 1  m == multi[x]  b == At2(multi, nthr, 1, k) IN
     IF m.tk # "ok" \/ b.tk # "ok" \/ m.rew.st # "ok" \/ m.t2d.st = "panic" THEN "panic"
     ELSE IF ~SameOccs(m.occs, b.occs) THEN "occurrences-depend-on-letter-case"
     ELSE IF m.t2d # b.t2d THEN "validation-depends-on-letter-case"
     ELSE IF VerdictC02(q.texts[v], m) # "" THEN "case-of-untouched-text-not-kept"
     ELSE ""])
VerdictC17(q, multi) ==
  LET nthr == Len(q.thrs) nv == Len(q.texts) IN
  First([x \in 1..(nv * nthr) |->
     LET v == ((x - 1) \div nthr) + 1  k == ((x - 1) % nthr) + 1  m == multi[x]  b == At2(multi, nthr, 1, k) IN
     IF m.tk # "ok" \/ b.tk # "ok" \/ m.rew.st # "ok" \/ m.t2d.st = "panic" THEN "panic"
     ELSE IF TextsValues(m.occs) # TextsValues(b.occs) THEN "occurrences-depend-on-whitespace"
     ELSE IF m.t2d # b.t2d THEN "validation-depends-on-whitespace"
     ELSE IF VerdictC02(q.texts[v], m) # "" THEN "whitespace-outside-spans-not-kept"
     ELSE ""])
\* C18: texts = <<s, twin>>; the twin has zero / xq in place of each o
RECURSIVE ReplaceAll(_, _, _)
ReplaceAll(s, from, to) == IF s = "" THEN ""
   ELSE IF StartsWith(s, from) THEN to \o ReplaceAll(SubSeq(s, Len(from) + 1, Len(s)), from, to)
   ELSE Ch(s, 1) \o ReplaceAll(SubSeq(s, 2, Len(s)), from, to)
VerdictC18(q, multi) ==
  LET nthr == Len(q.thrs) IN
  First([k \in 1..nthr |->
     LET m == At2(multi, nthr, 1, k)  t == At2(multi, nthr, 2, k) IN
     IF m.tk # "ok" \/ t.tk # "ok" \/ m.rew.st # "ok" \/ t.rew.st # "ok" THEN "panic"
     ELSE IF ~SameOccs(m.occs, t.occs) THEN "o-not-read-like-its-twin"
     ELSE IF m.rew.v # ReplaceAll(ReplaceAll(t.rew.v, "zero", "o"), "xq", "o") THEN "rewriting-of-o-differs-from-its-twin"
     ELSE ""])
\* C10: texts = <<A S B, A, B>>, q.extra = S
VerdictC10(q, multi) ==
  LET nthr == Len(q.thrs) IN
  First([k \in 1..nthr |->
     LET ab == At2(multi, nthr, 1, k)  a == At2(multi, nthr, 2, k)  b == At2(multi, nthr, 3, k) IN
     IF ab.rew.st # "ok" \/ a.rew.st # "ok" \/ b.rew.st # "ok" THEN "panic"
     ELSE IF ab.rew.v # a.rew.v \o q.extra \o b.rew.v THEN "earlier-context-changes-a-later-conversion"
     ELSE ""])

(* ---- C03: totality ------------------------------------------------------- *)
VerdictC03(q, m) ==
  IF "lookup" \in DOMAIN m /\ m.lookup # "some" THEN "built-in-language-not-resolvable"
  ELSE IF m.t2d.st = "panic" THEN "validation-panics"
  ELSE IF m.rew.st = "panic" THEN "rewrite-panics"
  ELSE IF m.tk # "ok" THEN "search-panics"
  ELSE IF q.pure /\ m.t2d.st # "err" THEN "non-number-validated"
  ELSE ""

(* ---- C13: facade = concrete; ISO codes ----------------------------------- *)
StripLookup(r) == [k \in (DOMAIN r) \ {"lookup"} |-> r[k]]
VerdictC13(q, r) ==
  IF q.kind = "noncode" THEN (IF r.lookup = "none" THEN "" ELSE "non-code-resolved-to-a-language")
  ELSE LET c == r.byvia[1]  f == r.byvia[2]  lk == r.byvia[3] IN
    IF f # c THEN "facade-differs-from-concrete-interpreter"
    ELSE IF "lookup" \notin DOMAIN lk \/ lk.lookup # "some" THEN "iso-code-not-resolved"
    ELSE IF StripLookup(lk) # c THEN "iso-code-resolves-to-a-different-behaviour"
    ELSE ""

(* ---- C14: Memo -- an interpreter is a function of its arguments ------------ *)
\* records [k (call id), who (fresh | seq | t<n>), seq, res]; ref[k] = result on a fresh interpreter
VerdictC14(rec, ref) ==
  IF rec.who = "streams" THEN (IF rec.res = "0" THEN "" ELSE "output-on-standard-streams")
  ELSE IF rec.k \notin DOMAIN ref THEN "thread-died"
  ELSE IF rec.res # ref[rec.k] THEN (IF rec.who = "seq" THEN "result-depends-on-earlier-calls"
                                     ELSE IF rec.who = "env" THEN "result-depends-on-the-process-environment"
                                     ELSE "result-depends-on-concurrent-calls")
  ELSE ""

(* ---- C07 on token streams with hints ------------------------------------- *)
VerdictC07s(L, q, r) ==
  IF r.batch.st # "ok" \/ r.span_t2d.st # "ok" THEN "panic"
  ELSE LET occs == r.batch.v  sp == r.span_t2d.v
           a == First([k \in 1..Len(occs) |->
                  IF IsDecimalText(L, occs[k].t) THEN ""
                  ELSE IF sp[k].st # "ok" THEN "span-words-rejected-by-validator"
                  ELSE IF sp[k].v # occs[k].t THEN "span-words-validate-to-other-digits"
                  ELSE ""])
       IN IF a # "" THEN a
          ELSE IF q.thr = "0" /\ r.word_t2d.v # <<>> THEN "valid-number-word-left-outside-occurrences"
          ELSE ""
=============================================================================
