SPECIFICATION Spec
CONSTANTS
  Bug_LookupMissesPt = FALSE
  Bug_VariantsSwapped = FALSE
  Bug_AnnotateNotForwarded = FALSE
INVARIANT DelegationOK
INVARIANT LookupOK
CHECK_DEADLOCK FALSE
