SPECIFICATION Spec
CONSTANTS
  Bug_ShiftNonAtomic = FALSE
  Bug_PushIgnoresFrozen = FALSE
  Bug_PositionFreeUnderflow = FALSE
  L = "nl"
  Alphabet = {"nul", "een", "twintig", "honderd", "en", "komma", "derde", "eenentwintig", "katten", "is"}
  MaxWords = 2
  Thrs = {"0", "10"}
  StrongSeps = {" katten slapen vandaag. "}
INVARIANT CaseOK
INVARIANT WsOK
INVARIANT ContextOK
INVARIANT NoNumberNoChange
CHECK_DEADLOCK FALSE
