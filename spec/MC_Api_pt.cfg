SPECIFICATION Spec
CONSTANTS
  Bug_ShiftNonAtomic = FALSE
  Bug_PushIgnoresFrozen = FALSE
  Bug_PositionFreeUnderflow = FALSE
  L = "pt"
  Alphabet = {"zero", "um", "vinte", "cem", "mil", "e", "vírgula", "terceiro", "vigésima", "gatos", "mais"}
  MaxWords = 3
  Thrs = {"0", "10"}
  StrongSeps = {" gatos pretos dormem. "}
INVARIANT CaseOK
INVARIANT WsOK
INVARIANT ContextOK
INVARIANT NoNumberNoChange
CHECK_DEADLOCK FALSE
