------------------------------ MODULE Lang_en ------------------------------
(***************************************************************************)
(* S2 for English (src/lang/en/mod.rs), string-exact: lemmatizer, hyphen   *)
(* groups through ExecGroup (all-or-nothing), guards, DigitString          *)
(* instructions, ordinal markers; S7: the annotator of the one-letter word *)
(* o with its scratch builder.  Apply returns [st, ds].                    *)
(***************************************************************************)
EXTENDS LangCommon

Lemmatize(w) == IF EndsWith(w, "s") /\ w # "seconds" THEN TrimEndCh(w, "s") ELSE w

MorphMarker(w) ==
  IF EndsWith(w, "th") THEN OrdMk("th")
  ELSE IF EndsWith(w, "ths") THEN OrdMk("ths")
  ELSE CASE w = "first" -> OrdMk("st") [] w = "second" -> OrdMk("nd") [] w = "third" -> OrdMk("rd")
         [] w = "thirds" -> OrdMk("rds") [] OTHER -> "none"

Units == ("one" :> "1") @@ ("first" :> "1") @@ ("oneth" :> "1") @@ ("two" :> "2") @@ ("second" :> "2")
      @@ ("three" :> "3") @@ ("third" :> "3") @@ ("four" :> "4") @@ ("fourth" :> "4") @@ ("five" :> "5") @@ ("fifth" :> "5")
      @@ ("six" :> "6") @@ ("sixth" :> "6") @@ ("seven" :> "7") @@ ("seventh" :> "7") @@ ("eight" :> "8") @@ ("eighth" :> "8")
      @@ ("nine" :> "9") @@ ("ninth" :> "9")
Plain == ("ten" :> "10") @@ ("tenth" :> "10") @@ ("eleven" :> "11") @@ ("eleventh" :> "11") @@ ("twelve" :> "12") @@ ("twelfth" :> "12")
      @@ ("thirteen" :> "13") @@ ("thirteenth" :> "13") @@ ("fourteen" :> "14") @@ ("fourteenth" :> "14")
      @@ ("fifteen" :> "15") @@ ("fifteenth" :> "15") @@ ("sixteen" :> "16") @@ ("sixteenth" :> "16")
      @@ ("seventeen" :> "17") @@ ("seventeenth" :> "17") @@ ("eighteen" :> "18") @@ ("eighteenth" :> "18")
      @@ ("nineteen" :> "19") @@ ("nineteenth" :> "19") @@ ("twenty" :> "20") @@ ("twentieth" :> "20")
      @@ ("thirty" :> "30") @@ ("thirtieth" :> "30") @@ ("fourty" :> "40") @@ ("forty" :> "40") @@ ("fortieth" :> "40") @@ ("fourtieth" :> "40")
      @@ ("fifty" :> "50") @@ ("fiftieth" :> "50") @@ ("sixty" :> "60") @@ ("sixtieth" :> "60")
      @@ ("seventy" :> "70") @@ ("seventieth" :> "70") @@ ("eighty" :> "80") @@ ("eightieth" :> "80")
      @@ ("ninety" :> "90") @@ ("ninetieth" :> "90")

RECURSIVE Apply(_, _)
ExecGroup(toks) ==          \* LangInterpreter::exec_group: all-or-nothing fold on a new builder
  LET RECURSIVE go(_, _, _)
      go(i, b, inc) == IF i > Len(toks) THEN (IF inc THEN R("incomplete", b) ELSE R("ok", b))
                       ELSE LET r == Apply(toks[i], b) IN
                            IF r.st = "ok" THEN go(i + 1, r.ds, FALSE)
                            ELSE IF r.st = "incomplete" THEN go(i + 1, r.ds, TRUE)
                            ELSE R(r.st, b)
  IN go(1, New, FALSE)

Apply(w, b) ==
  IF HasCh(w, "-") THEN
     LET g == ExecGroup(SplitHyphen(w)) IN
     IF g.st = "incomplete" THEN R("nan", b)         \* repaired: a compound ending on a dangling conjunction is not a number
     ELSE IF g.st # "ok" THEN R(g.st, b)
     ELSE IF DLen(g.ds) > 3 /\ DLen(g.ds) <= 6 /\ ~IsRangeFree(b, 3, 5) THEN R("overlap", b)
     ELSE LET r == Put(b, g.ds.buf) IN            \* b.put(&ds): Deref = the buffer, leading zeroes dropped
          IF r.st # "ok" THEN R(r.st, b)
          ELSE IF IsOrdinal(g.ds) THEN R("ok", [r.ds EXCEPT !.marker = g.ds.marker, !.frozen = TRUE])
          ELSE r
  ELSE
  LET l  == Lemmatize(w)
      pk == Peek(b, 2)
      status ==
        IF l \in {"zero", "o", "nought"} THEN Put(b, "0")
        ELSE IF l \in DOMAIN Units /\ pk # "10" THEN Put(b, Units[l])
        ELSE IF l \in DOMAIN Plain THEN Put(b, Plain[l])
        ELSE IF l \in {"hundred", "hundredth"} THEN (IF Len(pk) = 1 \/ pk # "00" THEN Shift(b, 2) ELSE R("overlap", b))
        ELSE IF l \in {"thousand", "thousandth"} /\ IsRangeFree(b, 3, 5) THEN Shift(b, 3)
        ELSE IF l \in {"million", "millionth"} /\ IsRangeFree(b, 6, 8) THEN Shift(b, 6)
        ELSE IF l \in {"billion", "billionth"} THEN Shift(b, 9)
        ELSE IF l = "and" /\ DLen(b) >= 2 THEN R("incomplete", b)
        ELSE R("nan", b)
  IN IF status.st = "ok" /\ (EndsWith(l, "th") \/ w = "first" \/ w = "second" \/ l = "third")
     THEN R("ok", [status.ds EXCEPT !.marker = MorphMarker(w), !.frozen = TRUE])
     ELSE status

DecDigits == ("zero" :> "0") @@ ("o" :> "0") @@ ("nought" :> "0") @@ ("one" :> "1") @@ ("two" :> "2") @@ ("three" :> "3")
          @@ ("four" :> "4") @@ ("five" :> "5") @@ ("six" :> "6") @@ ("seven" :> "7") @@ ("eight" :> "8") @@ ("nine" :> "9")
ApplyDecimal(w, b) == IF w \in DOMAIN DecDigits THEN Push(b, DecDigits[w]) ELSE R("nan", b)
IsDecimalSep(w) == w = "point"
DecimalMark == "."

\* S7: basic_annotate.  toks: sequence of lowercase token texts; returns the set of indices flagged nan.
\* significant = not made only of whitespace (char::is_whitespace -- repaired, was is_ascii_whitespace)
Annotate(toks) ==
  LET sig == SelectSeq([i \in 1..Len(toks) |-> i], LAMBDA i : ~IsWsOnly(toks[i]))
      ok(j) == Apply(toks[sig[j]], New).st = "ok"       \* the scratch builder is empty at every probe
  IN {sig[j] : j \in {x \in 1..Len(sig) : toks[sig[x]] = "o" /\ ~((x > 1 /\ ok(x - 1)) \/ (x < Len(sig) /\ ok(x + 1)))}}

\* every literal of the match arms, plus inflected / compound forms: the word alphabet of the apply-level conformance
Vocabulary == DOMAIN Units \cup DOMAIN Plain \cup {"zero", "o", "nought", "hundred", "hundredth", "thousand", "thousandth", "million", "millionth",
               "billion", "billionth", "and", "point", "seconds", "firsts", "thirds", "fifths", "hundreds", "thousands", "millions", "twenties",
               "twenty-five", "twenty-first", "thirty-second", "ninety-ninth", "one-hundred", "and-five", "twenty-", "-five", "fifty-fifty", "apple"}
=============================================================================
