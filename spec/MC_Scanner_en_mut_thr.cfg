SPECIFICATION Spec
CONSTANTS
  Bug_ShiftNonAtomic = FALSE
  Bug_PushIgnoresFrozen = FALSE
  Bug_PositionFreeUnderflow = FALSE
  L = "en"
  Alphabet = {"two", "apples", ", "}
  MaxLen = 3
  Thrs = {"0", "2"}
  Hints = FALSE
INVARIANT Incremental
INVARIANT WellFormed
INVARIANT Policy
INVARIANT Revalidates
INVARIANT ValidatedIsOne
INVARIANT IterEqBatch
INVARIANT LookaheadOK
INVARIANT HintsHonoured
INVARIANT StreamRewriteOK
CONSTANT Bug_ThresholdInclusive <- TrueValue
CHECK_DEADLOCK FALSE
