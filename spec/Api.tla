-------------------------------- MODULE Api --------------------------------
(***************************************************************************)
(* The public entry points composed from the component models:             *)
(*   Text2Digits(L, text)            text2digits                           *)
(*   FindInText(L, text, thr)        tokenize + basic_annotate + find      *)
(*   ReplaceInText(L, text, thr)     replace_numbers_in_text               *)
(* M as an executable reference model of the whole library.                *)
(***************************************************************************)
EXTENDS Scanner, Tokenizer
V == INSTANCE Vocab
\* str::split_whitespace
RECURSIVE SplitWs(_, _, _)
SplitWs(s, i, cur) == IF i > Len(s) THEN (IF cur = "" THEN <<>> ELSE <<cur>>)
                      ELSE IF IsWs(Ch(s, i)) THEN (IF cur = "" THEN <<>> ELSE <<cur>>) \o SplitWs(s, i + 1, "")
                      ELSE SplitWs(s, i + 1, cur \o Ch(s, i))
Text2Digits(L, text) == LET g == ExecGroup(L, SplitWs(Lower(text), 1, "")) IN
   IF g.st # "ok" THEN [st |-> "err", v |-> g.st]
   ELSE IF IsEmpty(g.ds) THEN [st |-> "err", v |-> "nan"]
   ELSE [st |-> "ok", v |-> Format(L, g.ds).text]
AnnotatedTokens(L, text) ==
  LET toks == Tokenize(text)
      nan == Annotate(L, [i \in 1..Len(toks) |-> Lower(toks[i])])
  IN [i \in 1..Len(toks) |-> [text |-> toks[i], lower |-> Lower(toks[i]), sep |-> FALSE, nan |-> i \in nan]]
FindInText(L, text, thr) == Batch(L, AnnotatedTokens(L, text), thr, V!Linking[L])
RECURSIVE SpliceM(_, _, _, _)
SpliceM(toks, occs, i, k) ==
  IF i >= Len(toks) THEN ""
  ELSE IF k <= Len(occs) /\ occs[k].s = i THEN occs[k].t \o SpliceM(toks, occs, occs[k].e, k + 1)
  ELSE toks[i + 1].text \o SpliceM(toks, occs, i + 1, k)
ReplaceInText(L, text, thr) == LET toks == AnnotatedTokens(L, text) IN SpliceM(toks, Batch(L, toks, thr, V!Linking[L]), 0, 1)
=============================================================================
