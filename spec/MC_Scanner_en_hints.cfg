SPECIFICATION Spec
CONSTANTS
  Bug_ShiftNonAtomic = FALSE
  Bug_PushIgnoresFrozen = FALSE
  Bug_PositionFreeUnderflow = FALSE
  L = "en"
  Alphabet = {"zero", "one", "two", "twenty", "hundred", "thousand", "and", "point", "third", "twentieth", "twenty-five", "plus", "apples", ", ", ".", " "}
  MaxLen = 2
  Thrs = {"0", "10", "2"}
  Hints = TRUE
INVARIANT Incremental
INVARIANT WellFormed
INVARIANT Policy
INVARIANT Revalidates
INVARIANT ValidatedIsOne
INVARIANT IterEqBatch
INVARIANT LookaheadOK
INVARIANT HintsHonoured
INVARIANT StreamRewriteOK
CHECK_DEADLOCK FALSE
