SPECIFICATION Spec
CONSTANTS
  Bug_ShiftNonAtomic = FALSE
  Bug_PushIgnoresFrozen = FALSE
  Bug_PositionFreeUnderflow = FALSE
  L = "nl"
  MaxLen = 6
INVARIANT GroupsKept
CHECK_DEADLOCK FALSE
