#!/opt/veriftools/pyvenv/bin/python
import json, jsonschema, glob, sys
ms = json.load(open('/root/.vp/MANIFEST.schema.json')); es = json.load(open('/root/.vp/EVIDENCE.schema.json'))
jsonschema.validate(json.load(open('/verif/MANIFEST.json')), ms)
bad = 0
for f in sorted(glob.glob('/verif/evidence/*.json')):
    try:
        jsonschema.validate(json.load(open(f)), es)
    except Exception as e:
        bad += 1; print("INVALID", f, str(e)[:300])
print("manifest ok; evidence files:", len(glob.glob('/verif/evidence/*.json')), "invalid:", bad)
sys.exit(1 if bad else 0)
