#!/bin/bash
# Re-runs, for every seeded change, the quick check of its property on /repo with the patch applied
# (git apply ... ; ./check ; git checkout -- .), and prints one line per change. Every line must say rc=1.
# usage: tools/regress_seeds.sh [seed dir names...]   (default: all of seeded/)
cd "$(dirname "$0")/.."
[ -z "$(git -C /repo status --short)" ] || { echo "/repo is not clean"; exit 2; }
for D in ${@:-$(ls seeded | grep -E '^C[0-9]+-')}; do
  P=seeded/$D/patch.diff; C=${D%%-*}
  git -C /repo apply $PWD/$P 2>/dev/null || { echo "$D DOES-NOT-APPLY"; continue; }
  out=$(./check $C --tier quick 2>&1); rc=$?
  git -C /repo checkout -- .
  echo "$D $C rc=$rc $(echo "$out" | grep -E '^VIOLATION' | head -1 | cut -c1-120) $(echo "$out" | grep -E 'TOOL-ERROR' | head -1 | cut -c1-200)"
done
