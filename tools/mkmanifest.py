#!/usr/bin/env python3
"""Regenerates /verif/MANIFEST.json from the list of built checks (tools/mkmanifest.py)."""
import json, os, subprocess
ROOT = os.path.dirname(os.path.dirname(os.path.abspath(__file__)))
props = [json.loads(l) for l in open(os.path.join(ROOT, "properties.jsonl"), encoding="utf-8")]
T = {
 "C01": ("MC_Spell: the TLA+ spelling grammar drives the interpreter model of each of the 7 languages word by word (NeverSplit, RoundTrip); TLC-generated phrases (31 variants) replayed on the real code; TLC judges every observation; apply-level trace comparison with the model over the full vocabularies", "spec/Speller_*.tla are the standard spellings and accepted variants; representative 3-digit groups + exhaustive small ranges + seeded numbers below 10^12"),
 "C02": ("TLC model checking of the scanner model (spliceable occurrence lists) + TLC-judged splice equation on TLC-generated texts, id-carrying token streams, hostile texts and a Unicode character sweep", "finite character alphabet (spec/Chars.tla) for the model; texts up to 8 words; token streams up to 10 tokens; sweep over 22 blocks (thorough: BMP + 3 astral blocks)"),
 "C03": ("TLC-generated degenerate/hostile inputs replayed through every entry point at 8 thresholds; TLC judges the outcomes", "panics caught per call; an abort/hang of the child process is reported as a failure; 34-atom nasty set, long inputs up to 2^15 repetitions; 2^15..2^18-word stretches without a number run by an unoptimised build on a 2 MiB stack"),
 "C04": ("MC_SpellOrd: the TLA+ ordinal grammar drives the interpreter models of the 7 languages; TLC-generated phrases (variants x inflections) replayed; TLC judges text, flag and value", "spec/Speller_*.tla ordinal grammars; ranks per tier"),
 "C05": ("TLA+ decimal grammar (integer, separator word, fraction) as oracle; TLC-generated phrases replayed; TLC judges", "integer parts from clean cardinal forms; fractions up to 6 digits"),
 "C06": ("TLC model checking of the scanner model against the numeral grammar + TLC-judged occurrences of the real scanner on TLC-generated streams", "stream alphabets of spec/Vocab.tla; value compared exactly up to 15 significant digits"),
 "C07": ("TLC model checking (MC_Scanner span re-validation; MC_Lang: S2 as a state machine over the full vocabulary with the step property asserted on every transition; shift mutants refuted) + TLC-judged re-validation of every reported span on the real code (stream set, hinted token streams, every ordered pair of the full vocabularies)", "stream alphabets of spec/Vocab.tla; full vocabularies of the interpreter models (83-201 words per language)"),
 "C08": ("TLA+ lexeme grammar as oracle for the allowed readings of two consecutive numbers and of digit dictation; TLC-generated phrases replayed; TLC judges", "pairs below 100, digit sequences up to 8"),
 "C09": ("TLC model checking of the tracker against the declarative lone-number policy at several thresholds in lockstep + TLC-judged policy on the real scanner at 12 thresholds", "the language's conjunction counts as a linking word; known finding C09-dangling-separator"),
 "C10": ("MC_Api: whole-library model checked at every split point; self-composition: TLC-generated A S B cases (fresh interpreter per text) and spelled pairs x punctuation, three real rewrites each, TLC judges the equation", "separators of 3 ordinary words ending a sentence; parts up to 3 words incl. the ambiguous words with their triggers"),
 "C11": ("MC_Api (CaseOK) + self-composition: TLC-generated case variants, TLC judges equality of occurrences and the splice on each variant", "reversible case pairs of spec/Chars.tla only"),
 "C12": ("TLA+ model checking (TLC) of the DigitString state machine with the action property asserted on every transition + trace validation of recorded DigitString steps", "operation alphabets and buffer bounds of spec/MC_C12_*.cfg; digit arguments are ASCII digit strings"),
 "C13": ("TLC model checking of the facade state machine (3 mutants) + TLC-judged equality of concrete type, facade and ISO lookup on all languages' inputs (texts, apply sequences, hinted token streams)", "non-codes: empty, digits, punctuation, gibberish"),
 "C14": ("TLC model checking of all interleavings of two-step calls against the Memo specification (shared-scratch mutant refuted) + TLC validation of recorded histories (fresh reference, sequential passes, threads, second process environment, captured output)", "real schedules are sampled; Send+Sync asserted at compile time in a binary only this check builds (a failure is a violation)"),
 "C15": ("TLC model checking of the lazy iterator (iterator = batch, look-ahead bound, hints) + TLC-judged records of the real iterator over a counting input, comma twin, and stateful step-by-step comparison with the model", "hints on significant tokens only"),
 "C16": ("MC_Spell with k zero words for the 7 languages; TLA+ speller with k leading zero words; TLC-generated phrases replayed; TLC judges", "k up to 6"),
 "C17": ("MC_Api (WsOK), MC_Tokenizer + self-composition: TLC-generated whitespace substitutions over all 25 White_Space characters; TLC judges", "finite alphabet of spec/Chars.tla"),
 "C18": ("MC_Api (OTwinOK) + twin construction from the Lang_en model (o -> zero / ordinary word); TLC judges equality of occurrences and rewriting", "texts of up to 5 words over the o-alphabet"),
}
built = [p["id"] for p in props if os.path.exists(os.path.join(ROOT, "checks", p["id"].lower() + ".py"))]
checks = []
for p in props:
    pid = p["id"]
    if pid not in built:
        continue
    tech, note = T[pid]
    checks.append({
        "property_id": pid,
        "quick_cmd": "./check %s --tier quick" % pid,
        "thorough_cmd": "./check %s --tier thorough" % pid,
        "evidence_file": "/verif/evidence/%s.json" % pid,
        "replay_cmd_template": "./check %s --replay {path}" % pid,
        "engine": "tlc",
        "level_claimed": {"category": "model_checking",
                          "text": "Bounded model checking of the TLA+ specification with TLC (states/transitions in the evidence) and conformance of the real code: inputs/behaviours generated by TLC from the specification are executed on the implementation built from /repo's working tree and every recorded observation is judged by TLC against the property predicate (Props*.tla); the implementation-shaped model is compared on the same observations (drift). " + tech,
                          "design_ref": "DESIGN.md section 3, %s" % pid},
        "level_note": "bounded exploration, not a proof; " + note + "; trusted: TLC/SANY, CommunityModules JSON, the orchestrator and the harness projection",
        "technique": "explicit TLA+ specification + TLC model checking + TLC trace/record validation of the real code (model-based conformance)",
    })
hooks = subprocess.run(["git", "-C", "/repo", "log", "--format=%h %s"], stdout=subprocess.PIPE, text=True).stdout.splitlines()
hook_commits = [l.split()[0] for l in hooks if "verif hook" in l]
m = {
 "version": 1,
 "setup_cmd": "cd /verif/harness && CARGO_NET_OFFLINE=true cargo build --release --offline --bin t2n-harness",
 "hooks": {"guard": "text2num_verif",
           "enable": "--cfg text2num_verif via /verif/harness/.cargo/config.toml (the harness depends on /repo by path and is rebuilt by every check)",
           "baseline_off_cmd": "cd /repo && cargo test --workspace --no-fail-fast --offline",
           "source_commits": hook_commits, "add_only": True},
 "engines": [{"name": "tlc", "path": "/opt/veriftools/tla/tla2tools.jar", "serves_properties": built,
              "kind_free_text": "TLA+ specification in /verif/spec (DigitString, Lang_*, Scanner, Tokenizer, Props, Speller_*, MC_*, Gen_*, Trace_*, Val_*) checked by TLC; Rust harness /verif/harness executes TLC-generated inputs on the real code; TLC validates the recorded observations"}],
 "checks": checks,
 "not_applicable": [{"property_id": p["id"], "reason": "check not built yet (in progress: needs the spelling grammars Speller_*.tla; see DESIGN.md section 9)"} for p in props if p["id"] not in built],
 "notes": "Verdict = property predicate evaluated by TLC on observations of the real code; model/implementation mismatch is reported as drift in the evidence, never as a violation. Known findings: /verif/known_findings.json. Exit codes: 0 held, 1 violation, 2 tool error.",
}
json.dump(m, open(os.path.join(ROOT, "MANIFEST.json"), "w"), indent=1, ensure_ascii=False)
print("checks:", built)
