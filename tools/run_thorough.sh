#!/bin/bash
# runs every thorough check once and prints one line per check (used to validate and time the thorough tier)
cd "$(dirname "$0")/.."
for C in ${@:-C12 C13 C14 C18 C10 C11 C17 C03 C15 C07 C09 C06 C02 C05 C08 C16 C04 C01}; do
  s=$(date +%s); out=$(./check $C --tier thorough 2>&1); rc=$?; e=$(date +%s)
  echo "$C rc=$rc $((e-s))s $(echo "$out" | grep -E "^\[check\] C[0-9]+ thorough" | cut -c1-170) $(echo "$out" | grep -E '^VIOLATION|TOOL-ERROR' | head -2 | cut -c1-300)"
done
