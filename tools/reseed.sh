#!/bin/bash
# usage: tools/reseed.sh <seed dir name> [check ids]  -- re-runs checks against an already filed seeded change
cd "$(dirname "$0")/.."
D=$1; shift; C=${D%%-*}
git -C /repo apply $PWD/seeded/$D/patch.diff || exit 3
for K in ${@:-$C}; do out=$(./check $K --tier quick 2>&1); rc=$?; echo "$D $K rc=$rc"; echo "$out" | grep -E "violation class|TOOL-ERROR" | cut -c1-330 | head -4; done
git -C /repo checkout -- .
