#!/bin/bash
# usage: tools/try_seed.sh <seed-variant-dir containing patch.diff demo.rs> <worktree> <check ids...>
# 1. confirms in the scratch worktree: demo passes unpatched, suite passes + demo fails patched
# 2. applies the patch to /repo, runs the given checks (quick), and undoes it straight afterwards
set -u
V=$1; WT=$2; shift 2
export CARGO_NET_OFFLINE=true
cd $WT && git checkout -q -- src 2>/dev/null; mkdir -p tests; cp $V/demo.rs tests/seed_demo.rs
echo "== unpatched demo:"; cargo test --offline --test seed_demo 2>&1 | grep -E "^test result|error(\[|:)" | head -3
git apply $V/patch.diff || { echo "PATCH DOES NOT APPLY in worktree"; }
echo "== patched suite:"; cargo test --offline --lib 2>&1 | grep -E "^test result|error(\[|:)" | head -3
echo "== patched demo:"; cargo test --offline --test seed_demo 2>&1 | grep -E "^test result|error(\[|:)" | head -3
git checkout -q -- src; rm -f tests/seed_demo.rs
cd /repo && git apply $V/patch.diff || { echo "PATCH DOES NOT APPLY on /repo HEAD"; exit 3; }
cd /verif
for C in "$@"; do
  out=$(./check $C --tier quick 2>&1); rc=$?
  echo "== check $C rc=$rc"; echo "$out" | grep -E "^VIOLATION|^KNOWN|TOOL-ERROR|violation class" | cut -c1-330 | head -6
done
git -C /repo checkout -- .
git -C /repo status --short | head -3
