#!/bin/bash
# usage: tools/try_benign.sh <patch.diff> [checks...]  -- a property-preserving change must raise no alarm (exit 0 everywhere)
P=$1; shift
CHECKS=${@:-C01 C02 C03 C04 C05 C06 C07 C08 C09 C10 C11 C12 C13 C14 C15 C16 C17 C18}
cd /repo && git apply $P || exit 3
cd /verif
for C in $CHECKS; do
  out=$(./check $C --tier quick 2>&1); rc=$?
  d=$(echo "$out" | grep -oE "drift [0-9]+" | tail -1)
  echo "$(basename $P) $C rc=$rc $d $(echo "$out" | grep -E '^VIOLATION|TOOL-ERROR' | head -2 | cut -c1-200)"
done
git -C /repo checkout -- .
