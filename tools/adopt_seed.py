#!/usr/bin/env python3
"""tools/adopt_seed.py <PROP> <variant> [check ids...]
Confirms a seeded change produced by an independent sub-agent (worktree /tmp/seed_<PROP>), runs our checks against it
(applied to /repo, undone straight afterwards) and files it under /verif/seeded/<PROP>-<variant>/."""
import json, os, shutil, subprocess, sys
P, v = sys.argv[1], sys.argv[2]
checks = sys.argv[3:] or [P]
PREFIX = os.environ.get("SEEDPREFIX", "seed")      # seed (round 1) / seed2 (round 2)
TAG = os.environ.get("SEEDTAG", "")                 # suffix of the filed variant, e.g. "2"
src = "/tmp/%s_%s/seed/%s" % (PREFIX, P, v)
out = subprocess.run(["/verif/tools/try_seed.sh", src, "/tmp/%s_%s" % (PREFIX, P)] + checks, stdout=subprocess.PIPE, stderr=subprocess.STDOUT, text=True).stdout
print(out)
lines = out.splitlines()
def after(tag):
    for i, l in enumerate(lines):
        if l.startswith(tag):
            return lines[i + 1] if i + 1 < len(lines) else ""
    return ""
confirmed = ("ok." in after("== unpatched demo")) and ("ok. 136 passed" in after("== patched suite")) and ("FAILED" in after("== patched demo"))
caught = {}
for i, l in enumerate(lines):
    if l.startswith("== check "):
        c = l.split()[2]; rc = l.split("rc=")[1]
        caught[c] = dict(rc=int(rc), verdicts=sorted({x.split("'")[1].split("/")[0] for x in lines[i + 1:i + 8] if "violation class" in x}))
dst = "/verif/seeded/%s-%s%s" % (P, v, TAG)
os.makedirs(dst, exist_ok=True)
for f in ("patch.diff", "demo.rs"):
    shutil.copy(os.path.join(src, f), dst)
meta = json.load(open(os.path.join(src, "meta.json")))
meta.update(dict(confirmed_by_us=confirmed, applies_to_repo_head="PATCH DOES NOT APPLY on /repo" not in out,
                 our_checks=caught, detected=any(c["rc"] == 1 for c in caught.values()),
                 what_we_ran="tools/try_seed.sh: demo on clean worktree (pass), existing suite with patch (pass), demo with patch (fail); "
                             "then git -C /repo apply patch.diff; ./check <id> --tier quick; git -C /repo checkout -- ."))
json.dump(meta, open(os.path.join(dst, "meta.json"), "w"), indent=1, ensure_ascii=False)
print("ADOPTED" if confirmed else "NOT CONFIRMED", dst, "detected=%s" % meta["detected"], caught)
