#!/bin/bash
# quick tier with several seeds on the unchanged tree: no check may raise an alarm
cd "$(dirname "$0")/.."
for S in ${SEEDS:-2 3 4}; do
for C in C01 C02 C03 C04 C05 C06 C07 C08 C09 C10 C11 C12 C13 C14 C15 C16 C17 C18; do
  out=$(VERIF_SEED=$S ./check $C --tier quick 2>&1); rc=$?
  echo "seed=$S $C rc=$rc $(echo "$out" | grep -E "^\[check\] C[0-9]+ quick" | sed 's/.*validated, //' | cut -c1-90) $(echo "$out" | grep -E '^VIOLATION|TOOL-ERROR' | head -2 | cut -c1-250)"
done; done
