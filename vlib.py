#!/usr/bin/env python3
"""Shared machinery of the /verif checks (orchestrator side).

Pipeline of one check (DESIGN.md 2.3):
  build harness from /repo's working tree -> TLC model check (M |= P, bounded)
  -> TLC generates behaviours/inputs -> Rust harness executes the real code
  -> TLC validates the recorded observations (P = verdict, M = drift)
  -> known-findings filter -> evidence + exit code.

Exit codes: 0 property held on everything explored; 1 violation (with a line
`VIOLATION property=<id> replay=<path>`); 2 tool error (never a VIOLATION line).
"""
import collections
import fcntl
import json
import os
import re
import shutil
import subprocess
import sys
import time
from concurrent.futures import ThreadPoolExecutor

ROOT = os.path.dirname(os.path.abspath(__file__))
SPEC = os.path.join(ROOT, "spec")
HARNESS_DIR = os.path.join(ROOT, "harness")
HARNESS_BIN = os.path.join(HARNESS_DIR, "target", "release", "t2n-harness")
THREADS_BIN = os.path.join(HARNESS_DIR, "target", "release", "t2n-threads")
WORK = os.path.join(ROOT, "work")
REPLAY = os.path.join(ROOT, "replay")
EVIDENCE = os.path.join(ROOT, "evidence")
KNOWN = os.path.join(ROOT, "known_findings.json")
TLA_CP = "/opt/veriftools/tla/tla2tools.jar:/opt/veriftools/tla/CommunityModules-deps.jar"
LANGS = ["de", "en", "es", "fr", "it", "nl", "pt"]
POOL = 12  # single-worker TLC JVMs in parallel (16 collapse on this machine, DESIGN.md 2.7)


class ToolError(Exception):
    pass


def log(*a):
    print("[check]", *a, file=sys.stderr, flush=True)


# --------------------------------------------------------------------------- context

class Ctx:
    def __init__(self, pid, tier, seed):
        self.pid = pid
        self.tier = tier
        self.seed = seed
        self.t0 = time.time()
        self.work = os.path.join(WORK, pid)
        shutil.rmtree(self.work, ignore_errors=True)
        os.makedirs(self.work, exist_ok=True)
        self.mc_states = 0          # distinct states over all TLC model-checking runs of this check
        self.mc_transitions = 0     # states generated (= transitions examined)
        self.mc_runs = []
        self.validated = 0          # records / events validated by TLC against the implementation
        self.evaluations = 0        # requests executed on the real code
        self.nontrivial = 0
        self.rule = ""
        self.samples = []
        self.drift = 0
        self.drift_samples = []
        self.failures = []          # P-failures: dicts with at least 'verdict' and 'sig'
        self.extra = {}
        self.assumptions = []
        self.exhaustive = False
        self.is_replay = False

    def path(self, name):
        return os.path.join(self.work, name)

    def quick(self):
        return self.tier == "quick"


# --------------------------------------------------------------------------- build

def build_harness():
    os.makedirs(WORK, exist_ok=True)
    lock = open(os.path.join(WORK, ".build.lock"), "w")
    fcntl.flock(lock, fcntl.LOCK_EX)
    try:
        env = dict(os.environ)
        env["CARGO_NET_OFFLINE"] = "true"
        env.pop("RUSTFLAGS", None)
        t = time.time()
        p = subprocess.run(["cargo", "build", "--release", "--offline", "--bin", "t2n-harness"], cwd=HARNESS_DIR, env=env,
                           stdout=subprocess.PIPE, stderr=subprocess.STDOUT, text=True)
        if p.returncode != 0:
            sys.stderr.write(p.stdout[-6000:])
            raise ToolError("harness build failed (the tree under /repo does not compile with the hooks enabled)")
        log("harness built in %.1fs" % (time.time() - t))
    finally:
        fcntl.flock(lock, fcntl.LOCK_UN)
        lock.close()


def build_harness_debug():
    """The same harness built WITHOUT optimisation (cargo's dev profile): recursion that the optimiser turns into a loop, and
    arithmetic it folds away, behave differently there.  Used by C03 for the very long inputs only."""
    lock = open(os.path.join(WORK, ".build.lock"), "w")
    fcntl.flock(lock, fcntl.LOCK_EX)
    try:
        env = dict(os.environ)
        env["CARGO_NET_OFFLINE"] = "true"
        env.pop("RUSTFLAGS", None)
        t = time.time()
        p = subprocess.run(["cargo", "build", "--offline", "--bin", "t2n-harness"], cwd=HARNESS_DIR, env=env,
                           stdout=subprocess.PIPE, stderr=subprocess.STDOUT, text=True)
        if p.returncode != 0:
            sys.stderr.write(p.stdout[-6000:])
            raise ToolError("unoptimised harness build failed")
        log("unoptimised harness built in %.1fs" % (time.time() - t))
        return os.path.join(HARNESS_DIR, "target", "debug", "t2n-harness")
    finally:
        fcntl.flock(lock, fcntl.LOCK_UN)
        lock.close()


def build_threads_bin():
    """Builds the C14 binary, the only code that needs the interpreters to be Send + Sync.  Returns None when it built, or
    the compiler's message when the build failed BECAUSE an interpreter type is not Send / Sync (that is a C14 violation,
    not a tool error); any other build failure is a tool error."""
    lock = open(os.path.join(WORK, ".build.lock"), "w")
    fcntl.flock(lock, fcntl.LOCK_EX)
    try:
        env = dict(os.environ)
        env["CARGO_NET_OFFLINE"] = "true"
        env.pop("RUSTFLAGS", None)
        t = time.time()
        p = subprocess.run(["cargo", "build", "--release", "--offline", "--bin", "t2n-threads"], cwd=HARNESS_DIR, env=env,
                           stdout=subprocess.PIPE, stderr=subprocess.STDOUT, text=True)
        if p.returncode == 0:
            log("threads binary built in %.1fs" % (time.time() - t))
            return None
        m = re.search(r"error\[E0277\][^\n]*cannot be (sent|shared) between threads safely.*?(?=\nerror|\Z)", p.stdout, re.S)
        if m:
            return m.group(0)[:3000]
        sys.stderr.write(p.stdout[-6000:])
        raise ToolError("threads binary build failed")
    finally:
        fcntl.flock(lock, fcntl.LOCK_UN)
        lock.close()


# --------------------------------------------------------------------------- TLC

def _java(heap, serial=True, deque=False, xss=True):
    cmd = ["java"]
    cmd += ["-XX:+UseSerialGC", "-XX:CICompilerCount=2"] if serial else ["-XX:+UseParallelGC"]
    cmd += ["-Xms%s" % heap, "-Xmx%s" % heap] if serial else ["-Xmx%s" % heap]
    if xss:
        cmd += ["-Xss1g"]
    cmd += ["-Dfile.encoding=UTF-8", "-Dstdout.encoding=UTF-8", "-Dsun.jnu.encoding=UTF-8"]
    if deque:
        cmd += ["-Dtlc2.tool.queue.IStateQueue=StateDeque"]
    cmd += ["-cp", TLA_CP, "tlc2.TLC"]
    return cmd


_STATS = re.compile(r"(\d[\d,]*) states generated, (\d[\d,]*) distinct states found")


def tlc(module, cfg, metadir, env=None, workers=1, heap="1500m", timeout=3600, deque=False, serial=True,
        extra=None, expect_error=False):
    """Run TLC on spec/<module>.tla with config file cfg. Returns dict(rc, out, generated, distinct)."""
    e = dict(os.environ)
    e.pop("JAVA_TOOL_OPTIONS", None)
    e["LC_ALL"] = "C.UTF-8"
    if env:
        e.update({k: str(v) for k, v in env.items()})
    os.makedirs(metadir, exist_ok=True)
    cmd = _java(heap, serial=serial, deque=deque) + ["-workers", str(workers), "-metadir", metadir, "-cleanup",
                                                       "-noGenerateSpecTE"]
    if extra:
        cmd += extra
    cmd += ["-config", cfg, os.path.join(SPEC, module + ".tla")]
    try:
        p = subprocess.run(cmd, cwd=metadir, env=e, stdout=subprocess.PIPE, stderr=subprocess.STDOUT,
                           timeout=timeout)
    except subprocess.TimeoutExpired:
        raise ToolError("TLC timeout on %s (%ss)" % (module, timeout))
    out = p.stdout.decode("utf-8", "replace")
    gen = dist = 0
    for m in _STATS.finditer(out):
        gen = int(m.group(1).replace(",", ""))
        dist = int(m.group(2).replace(",", ""))
    shutil.rmtree(os.path.join(metadir, "states"), ignore_errors=True)
    res = dict(rc=p.returncode, out=out, generated=gen, distinct=dist, module=module)
    if p.returncode != 0 and not expect_error:
        tail = "\n".join(l for l in out.splitlines() if not re.match(r"^\d+\. Line", l))[-5000:]
        raise ToolError("TLC failed on %s (rc=%s):\n%s" % (module, p.returncode, tail))
    return res


def write_cfg(path, constants=None, spec=None, invariants=(), constraints=(), post=None, extra_lines=()):
    lines = []
    if spec:
        lines.append("SPECIFICATION %s" % spec)
    if constants:
        lines.append("CONSTANTS")
        for k, v in constants.items():
            lines.append("  %s = %s" % (k, tla_value(v)))
    for c in constraints:
        lines.append("CONSTRAINT %s" % c)
    for i in invariants:
        lines.append("INVARIANT %s" % i)
    if post:
        lines.append("POSTCONDITION %s" % post)
    if spec:
        lines.append("CHECK_DEADLOCK FALSE")
    lines += list(extra_lines)
    with open(path, "w", encoding="utf-8") as f:
        f.write("\n".join(lines) + "\n")
    return path


def tla_value(v):
    if isinstance(v, bool):
        return "TRUE" if v else "FALSE"
    if isinstance(v, int):
        return str(v)
    if isinstance(v, str):
        return '"%s"' % v.replace("\\", "\\\\").replace('"', '\\"')
    if isinstance(v, (set, frozenset)):
        return "{" + ", ".join(tla_value(x) for x in sorted(v, key=lambda x: (str(type(x)), x))) + "}"
    if isinstance(v, (list, tuple)):
        return "<<" + ", ".join(tla_value(x) for x in v) + ">>"
    if isinstance(v, Raw):
        return v.s
    raise ValueError(v)


class Raw:
    def __init__(self, s):
        self.s = s


def model_check(ctx, module, cfg, workers=8, heap="6g", timeout=3600, label=None):
    """M |= P inside the bounds of cfg (a file in spec/). Counts go to the evidence."""
    t = time.time()
    r = tlc(module, os.path.join(SPEC, cfg) if not os.path.isabs(cfg) else cfg, ctx.path("mc_" + (label or cfg)),
            workers=workers, heap=heap, timeout=timeout, serial=False, deque=True)   # in-memory queue: TLC's disk queue mangles non-ASCII strings in states
    ctx.mc_states += r["distinct"]
    ctx.mc_transitions += r["generated"]
    ctx.mc_runs.append(dict(module=module, cfg=os.path.basename(cfg), distinct=r["distinct"],
                            generated=r["generated"], wall_s=round(time.time() - t, 1)))
    log("model check %s/%s: %d distinct, %d generated, %.1fs" % (module, os.path.basename(cfg), r["distinct"],
                                                                r["generated"], time.time() - t))
    return r


def model_check_many(ctx, runs, workers_each=2, heap="3g", timeout=3600):
    """several bounded model-checking runs in parallel: runs = [(module, cfg), ...]"""
    def job(r):
        return lambda: model_check(ctx, r[0], r[1], workers=workers_each, heap=heap, timeout=timeout, label=r[1])
    run_pool([job(r) for r in runs], workers=max(1, 14 // workers_each))


def mutant_refuted(ctx, module, cfg_text_path, label):
    """A Bug_* mutant of M must be refuted by TLC (negative control / non-vacuity)."""
    r = tlc(module, cfg_text_path, ctx.path("mut_" + label), workers=4, heap="3g", timeout=900, serial=False,
            expect_error=True, deque=True)
    refuted = r["rc"] != 0 and ("violated" in r["out"] or "Assert" in r["out"] or "is violated" in r["out"])
    ctx.extra.setdefault("mutants", {})[label] = "refuted" if refuted else "NOT refuted"
    if not refuted:
        raise ToolError("negative control failed: mutant %s was not refuted by TLC" % label)
    return True


def generate(ctx, module, constants, out_name, env=None, heap="6g", timeout=1800):
    """Run a Gen_* module (ASSUME-only, writes ndjson requests to IOEnv.OUT)."""
    cfg = (write_cfg(ctx.path(module + "_" + out_name + ".cfg"), constants=constants) if constants
           else os.path.join(SPEC, "Val.cfg"))
    out = ctx.path(out_name)
    e = {"OUT": out}
    if env:
        e.update(env)
    t = time.time()
    tlc(module, cfg, ctx.path("gen_" + out_name), env=e, workers=1, heap=heap, timeout=timeout, serial=True)
    n = sum(1 for _ in open(out, "rb"))
    log("generated %d requests with %s in %.1fs" % (n, module, time.time() - t))
    return out, n


def run_pool(jobs, workers=POOL):
    """jobs: list of callables; run them concurrently, re-raise the first exception."""
    if not jobs:
        return []
    with ThreadPoolExecutor(max_workers=workers) as ex:
        futs = [ex.submit(j) for j in jobs]
        return [f.result() for f in futs]


def shard_file(path, nshards, min_lines=3000, group_key=None):
    """Split an ndjson file into up to nshards files (whole runs kept together when group_key given)."""
    lines = open(path, "rb").read().splitlines(keepends=True)
    n = len(lines)
    if n == 0:
        return []
    k = max(1, min(nshards, n // min_lines if n >= min_lines else 1))
    size = (n + k - 1) // k
    shards = []
    i = 0
    idx = 0
    while i < n:
        j = min(n, i + size)
        if group_key is not None:
            # do not cut inside a run: extend until the next line starts a new run
            while j < n and not group_key(lines[j]):
                j += 1
        p = "%s.shard%d" % (path, idx)
        with open(p, "wb") as f:
            f.writelines(lines[i:j])
        shards.append((p, j - i))
        i = j
        idx += 1
    return shards


def validate(ctx, module, cfg, obs_path, trace=False, min_lines=3000, group_key=None, heap="1500m",
             timeout=3600, env=None):
    """Validate recorded observations with TLC (module = Trace_* or Val_*), sharded over a pool of JVMs.
    Each shard writes a JSON result {events, pbad:[...], drift:[...]}; results are merged."""
    shards = shard_file(obs_path, POOL, min_lines=min_lines, group_key=group_key)
    cfgp = os.path.join(SPEC, cfg) if not os.path.isabs(cfg) else cfg
    results = [None] * len(shards)

    def job(k):
        def run():
            sp, n = shards[k]
            outp = sp + ".res.json"
            e = {"TRACE": sp, "OUT": outp}
            if env:
                e.update(env)
            tlc(module, cfgp, sp + ".meta", env=e, workers=1, heap=heap, timeout=timeout, deque=trace, serial=True)
            if not os.path.exists(outp):
                raise ToolError("validator %s produced no result for %s" % (module, sp))
            results[k] = json.load(open(outp, encoding="utf-8"))
            shutil.rmtree(sp + ".meta", ignore_errors=True)
        return run

    t = time.time()
    run_pool([job(k) for k in range(len(shards))])
    merged = dict(events=0, pbad=[], drift=[])
    for r in results:
        merged["events"] += r.get("events", 0)
        merged["pbad"] += list(r.get("pbad", []))
        merged["drift"] += list(r.get("drift", []))
        for k, v in r.items():
            if k not in ("events", "pbad", "drift"):
                if isinstance(v, int):
                    merged[k] = merged.get(k, 0) + v
    ctx.validated += merged["events"]
    ctx.drift += len(merged["drift"])
    for d in merged["drift"][:5]:
        if len(ctx.drift_samples) < 10:
            ctx.drift_samples.append(d)
    log("validated %d records with %s in %d shards, %.1fs: %d P-failures, %d drift" % (
        merged["events"], module, len(shards), time.time() - t, len(merged["pbad"]), len(merged["drift"])))
    return merged


# --------------------------------------------------------------------------- harness

def harness(ctx, mode, req, obs, args=(), timeout=1800, binpath=None, stack_kb=None):
    """Execute the real code. Returns (stdout, stderr) of the child process. A crash/hang of the child is data
    for the caller (returncode attached)."""
    t = time.time()
    try:
        cmd = [THREADS_BIN, req, obs] if mode == "threads" else [binpath or HARNESS_BIN, mode, req, obs]
        pre = None
        if stack_kb:
            import resource

            def pre():
                resource.setrlimit(resource.RLIMIT_STACK, (stack_kb * 1024, resource.getrlimit(resource.RLIMIT_STACK)[1]))
        p = subprocess.run(cmd + [str(a) for a in args], preexec_fn=pre, stdout=subprocess.PIPE,
                           stderr=subprocess.PIPE, timeout=timeout)
        rc = p.returncode
        so, se = p.stdout, p.stderr
    except subprocess.TimeoutExpired as ex:
        rc, so, se = -9, ex.stdout or b"", ex.stderr or b""
    n = sum(1 for _ in open(obs, "rb")) if os.path.exists(obs) else 0
    log("harness %s: %d observation records in %.1fs (rc=%s)" % (mode, n, time.time() - t, rc))
    return dict(rc=rc, stdout=so.decode("utf-8", "replace"), stderr=se.decode("utf-8", "replace"), records=n)


def read_ndjson(path):
    with open(path, encoding="utf-8") as f:
        for line in f:
            line = line.strip()
            if line:
                yield json.loads(line)


def write_ndjson(path, rows):
    with open(path, "w", encoding="utf-8") as f:
        for r in rows:
            f.write(json.dumps(r, ensure_ascii=False) + "\n")
    return path


# --------------------------------------------------------------------------- known findings, verdict, evidence

def load_known():
    if not os.path.exists(KNOWN):
        return []
    return json.load(open(KNOWN, encoding="utf-8"))["findings"]


def match_known(entry, sig):
    for k, pat in entry.get("match", {}).items():
        v = sig.get(k)
        if v is None:
            return False
        if not re.search(pat, str(v)):
            return False
    return True


def finish(ctx, level="model_checking", checker_cmd=""):
    """Filter failures through the known-findings file, write evidence and replay files, exit."""
    known = [e for e in load_known() if e.get("property") == ctx.pid and e.get("status") == "known"]
    hit = collections.OrderedDict()
    unknown = []
    for f in ctx.failures:
        sig = f.get("sig", {})
        m = None
        for e in known:
            if match_known(e, sig):
                m = e
                break
        if m is not None:
            hit.setdefault(m["id"], [m, 0])
            hit[m["id"]][1] += 1
        else:
            unknown.append(f)
    for kid, (e, n) in hit.items():
        print("KNOWN-FINDING: property=%s %s [%s, %d matching case(s) in this run]" % (ctx.pid, e["what"], kid, n))
    # classes of unknown failures -> replay files
    classes = collections.OrderedDict()
    for f in unknown:
        key = f.get("cls") or f.get("verdict", "?")
        classes.setdefault(key, []).append(f)
    lines = []
    if classes:
        os.makedirs(REPLAY, exist_ok=True)
        for n, (key, fs) in enumerate(classes.items()):
            if n >= 12:
                break
            p = os.path.join(REPLAY, "%s-%d.json" % (ctx.pid, n))
            with open(p, "w", encoding="utf-8") as fh:
                json.dump(dict(property=ctx.pid, cls=key, count=len(fs), cases=fs[:25]), fh, ensure_ascii=False,
                          indent=1)
            lines.append("VIOLATION property=%s replay=%s" % (ctx.pid, p))
            s = fs[0]
            log("violation class %r (%d cases), e.g. %s" % (key, len(fs), json.dumps(s.get("sig", s), ensure_ascii=False)[:400]))
    wall = time.time() - ctx.t0
    cov = dict(
        states=max(ctx.mc_states, 0),
        transitions=max(ctx.mc_transitions, 0),
        traces_validated_against_impl=ctx.validated,
        samples=ctx.samples[:8] if ctx.samples else [f.get("sig", f) for f in ctx.failures[:3]] or [dict(note="no input was executed in this run")],
        evaluations=ctx.evaluations,
        distinct_nontrivial=ctx.nontrivial,
        rule=ctx.rule,
        exhaustive=ctx.exhaustive,
        model_checking_runs=ctx.mc_runs,
        drift_events=ctx.drift,
        drift_samples=ctx.drift_samples,
        p_failures=len(ctx.failures),
        known_finding_cases=sum(n for _, n in hit.values()),
        checker_cmd=checker_cmd or "./check %s --tier %s" % (ctx.pid, ctx.tier),
    )
    cov.update(ctx.extra)
    ev = dict(property_id=ctx.pid, tier=ctx.tier, seed=ctx.seed, level=level, coverage=cov,
              assumptions=ctx.assumptions, wall_s=round(wall, 1), violations=len(unknown))
    if not ctx.is_replay:
        os.makedirs(EVIDENCE, exist_ok=True)
        with open(os.path.join(EVIDENCE, ctx.pid + ".json"), "w", encoding="utf-8") as f:
            json.dump(ev, f, ensure_ascii=False, indent=1)
    for l in lines:
        print(l)
    log("%s %s: %d evaluations, %d validated, %d model states, drift %d, failures %d (unknown %d), %.1fs" % (
        ctx.pid, ctx.tier, ctx.evaluations, ctx.validated, ctx.mc_states, ctx.drift, len(ctx.failures),
        len(unknown), wall))
    shutil.rmtree(ctx.work, ignore_errors=True)
    return 1 if unknown else 0
