"""C04 -- ordinal round-trip: spelled ordinals become digits plus the ordinal marker (DESIGN.md section 3, C04)."""
import vlib
from checks import spell, streams, scanner_mc


def run(ctx):
    q = ctx.quick()
    scanner_mc.spell_mc(ctx, ordinals=True)
    if q:
        prm = dict(kind="ord", upto=2200, rlow=[0], rhigh=[0], randn=1500, seed=ctx.seed % 100000)
        spell.run_kind(ctx, "C04", "Gen_Spell", prm,
                       "ranks: every rank below %d, the last rank of the range (10^6; es/pt 1999), %d seeded ranks; x orthographic variants "
                       "(en 3, fr 3, es 3 teen styles) x inflections (fr m/f/mp/fp, de -e/-er/-en/-es/-em, it o/a/i/e, es/pt o/a/os/as), alone and "
                       "in a sentence; validate, rewrite and search (flag and value); every distinct phrase is non-trivial" % (prm["upto"], prm["randn"]))
    else:
        # EVERY rank up to 10^6 (es/pt: 1999) in every variant and inflection, in chunks
        chunks = []
        for l in vlib.LANGS:
            if l in ("es", "pt"):
                chunks.append(dict(kind="ord", langs=[l], base=0, **{"from": 0}, upto=2000, rlow=[0], rhigh=[0], randn=0, seed=ctx.seed % 100000))
            else:
                step = 25000 if l == "fr" else 50000
                chunks += [dict(kind="ord", langs=[l], base=0, **{"from": a}, upto=step + 1, rlow=[0], rhigh=[0], randn=0, seed=ctx.seed % 100000)
                           for a in range(0, 1000000, step)]
        prm = dict(upto=1000000, randn=0)
        spell.run_chunks(ctx, "C04", "Gen_Spell", chunks,
                         "EVERY rank from 1 to 10^6 (es/pt: to 1999) x orthographic variants (en 3, fr 3, es 3 teen styles) x inflections (fr m/f/mp/fp, "
                         "de -e/-er/-en/-es/-em, it o/a/i/e, es/pt o/a/os/as), alone and in a sentence; validate, rewrite and search (flag and value)")
    ctx.extra["exhaustive_parts"] = ["every rank below %d in every language (es/pt: below 2000), variant and inflection" % prm["upto"]]
    ctx.assumptions += ["standard ordinal spelling = spec/SpellerOrd.tla", "es/pt ordinals are modelled up to 1999, the others up to 10^6"]
    return vlib.finish(ctx)


def replay(ctx, data):
    return streams.replay_requests(ctx, "C04", data, module="Val_Spell")
