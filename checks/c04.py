"""C04 -- ordinal round-trip: spelled ordinals become digits plus the ordinal marker (DESIGN.md section 3, C04)."""
import vlib
from checks import spell, streams, scanner_mc


def run(ctx):
    q = ctx.quick()
    scanner_mc.spell_mc(ctx, ordinals=True)
    prm = dict(kind="ord", upto=2200 if q else 1000000, rlow=[0], rhigh=[0], randn=1500 if q else 0, seed=ctx.seed % 100000)
    if not q:
        prm["upto"] = 200000
        prm["randn"] = 200000
    spell.apply_conformance(ctx)
    spell.run_kind(ctx, "C04", "Gen_Spell", prm,
                   "ranks: every rank below %d, the last rank of the range (10^6; es/pt 1999), %d seeded ranks; x orthographic variants "
                   "(en 3, fr 3, es 3 teen styles) x inflections (fr m/f/mp/fp, de -e/-er/-en/-es/-em, it o/a/i/e, es/pt o/a/os/as), alone and "
                   "in a sentence; validate, rewrite and search (flag and value); every distinct phrase is non-trivial" % (prm["upto"], prm["randn"]))
    ctx.extra["exhaustive_parts"] = ["every rank below %d in every language (es/pt: below 2000), variant and inflection" % prm["upto"]]
    ctx.assumptions += ["standard ordinal spelling = spec/SpellerOrd.tla", "es/pt ordinals are modelled up to 1999, the others up to 10^6"]
    return vlib.finish(ctx)


def replay(ctx, data):
    return streams.replay_requests(ctx, "C04", data, module="Val_Spell")
