"""C10 -- see DESIGN.md section 3 (C10), spec/Gen_Twins.tla and spec/Props.tla (VerdictC10)."""
from checks import twins, streams


def run(ctx):
    return twins.run_prop(ctx, "C10")


def replay(ctx, data):
    return streams.replay_requests(ctx, "C10", data, module="Val_Twins")
