"""C05 -- decimal round-trip: integer, separator word, fraction become one decimal (DESIGN.md section 3, C05)."""
import vlib
from checks import spell, streams, scanner_mc

FRACS = ["0", "5", "05", "50", "00", "007", "123", "100", "010", "999999", "100000", "000001", "12", "70", "80", "91", "21", "101",
         "1000", "0001", "9", "90", "09", "900", "16", "71", "81", "88", "000", "500000", "11", "61"]


def run(ctx):
    q = ctx.quick()
    scanner_mc.dec_mc(ctx)
    scanner_mc.model_check(ctx, "C05")
    prm = dict(kind="dec", upto=131 if q else 1500, rlow=[0, 1, 21, 100, 181, 999] if q else [0, 1, 2, 11, 21, 71, 80, 99, 100, 101, 181, 999],
               rhigh=[0, 1, 2, 100] if q else [0, 1, 2], randn=1000 if q else 6000, seed=ctx.seed % 100000,
               fracs=FRACS, perint=6 if q else 8)
    spell.run_kind(ctx, "C05", "Gen_Spell", prm,
                   "integer parts: every n <= %d, representative groups, %d seeded numbers below 10^9; fractions: %d fixed digit strings (leading/"
                   "trailing zeros, up to 6 digits) and seeded digit strings of length 1..6, %d per integer part; plus four negative forms per case "
                   "(separator without number before / without fraction / before a word / before punctuation); every distinct phrase is non-trivial"
                   % (prm["upto"] - 1, prm["randn"], len(FRACS), prm["perint"]))
    ctx.assumptions += ["fractions are spelled digit by digit in English and German, as k zero words + the cardinal of the rest elsewhere",
                        "integer parts use the first variant of each language; numbers under the recorded C01 finding are kept out"]
    return vlib.finish(ctx)


def replay(ctx, data):
    return streams.replay_requests(ctx, "C05", data, module="Val_Spell")
