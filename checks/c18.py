"""C18 -- see DESIGN.md section 3 (C18), spec/Gen_Twins.tla and spec/Props.tla (VerdictC18)."""
from checks import twins, streams


def run(ctx):
    return twins.run_prop(ctx, "C18")


def replay(ctx, data):
    return streams.replay_requests(ctx, "C18", data, module="Val_Twins")
