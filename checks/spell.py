"""Shared pipeline of the spelling-grammar properties (C01, C04, C05, C08, C16): the TLA+ grammars of spec/Speller*.tla
generate the phrases (one TLC process per language), the harness executes them on the real code, Val_Spell re-computes every
spelling from (language, groups, variant) and judges the observations."""
import json
import os
import vlib
from checks import streams

RQUICK_LOW = [0, 1, 2, 7, 10, 11, 16, 20, 21, 28, 70, 71, 80, 81, 88, 91, 99, 100, 101, 110, 180, 181, 200, 999]
RQUICK_HIGH = [0, 1, 2, 21, 100, 999]


def generate(ctx, gen, base_params, langs=None):
    """one generator process per language (parallel); ids are made disjoint by a per-language base"""
    langs = langs or vlib.LANGS
    outs = [None] * len(langs)

    def job(k):
        def run1():
            prm = dict(base_params, langs=[langs[k]], base=k * 100000000)
            pj = ctx.path("params_%s.json" % langs[k])
            json.dump(prm, open(pj, "w"), ensure_ascii=False)
            out, n = vlib.generate(ctx, gen, None, "req_%s.ndjson" % langs[k], env={"PARAMS": pj}, heap="3g")
            outs[k] = out
        return run1
    vlib.run_pool([job(k) for k in range(len(langs))], workers=7)
    req = ctx.path("req.ndjson")
    with open(req, "wb") as f:
        for o in outs:
            f.write(open(o, "rb").read())
            os.remove(o)
    return req


def run_kind(ctx, prop, gen, prm, rule, nontrivial=lambda r: True, langs=None, module="Val_Spell"):
    req = generate(ctx, gen, prm, langs)
    res, obs, h = streams.exec_validate(ctx, prop, req, module=module, mode="text", min_lines=4000)
    seen = set()
    nt = 0
    n = 0
    for r in vlib.read_ndjson(obs):
        n += 1
        q = r["q"]
        key = (q["lang"], q["texts"][0])
        if key in seen:
            continue
        seen.add(key)
        if nontrivial(r):
            nt += 1
        if len(ctx.samples) < 6 and n % 9973 == 11:
            m = r["multi"]
            ctx.samples.append(dict(lang=q["lang"], variant=q.get("v"), groups=q.get("gs"), phrase=q["texts"][0],
                                    validated=m[0].get("t2d"), in_sentence=q["texts"][-1],
                                    rewritten=(m[-1].get("rew") or {}).get("v")))
    ctx.nontrivial = nt
    ctx.extra["distinct_phrases"] = len(seen)
    ctx.rule = rule
    tool = [f for f in ctx.failures if f["verdict"].startswith("tool-error")]
    if tool:
        raise vlib.ToolError("generator/validator disagree on the grammar: %s" % json.dumps(tool[0]["sig"], ensure_ascii=False)[:400])
    return res, obs


def apply_conformance(ctx):
    """binding of the interpreter models Lang_xx (S2) to the code: word-by-word apply over the full vocabulary, every step compared
    (result, rendering, buffer, leading zeroes, frozen, flags, marker, separator/linking predicates). Drift only."""
    q = ctx.quick()
    prm = dict(allpairs=not q, pairs=1200, randn=600 if q else 20000, seed=ctx.seed % 100000)
    req = generate(ctx, "Gen_Apply", prm)
    os.rename(req, ctx.path("req_apply.ndjson"))
    req = ctx.path("req_apply.ndjson")
    obs = ctx.path("obs_apply.ndjson")
    h = vlib.harness(ctx, "apply", req, obs)
    if h["rc"] != 0:
        raise vlib.ToolError("harness apply failed: " + h["stderr"][-500:])
    res = vlib.validate(ctx, "Val_Apply", "Val.cfg", obs, min_lines=1200, heap="2500m")
    ctx.extra["apply_steps_compared_with_model"] = res["events"]
    ctx.validated -= res["events"]          # drift comparison, not a property judgement: not counted as validated observations
    ctx.extra["apply_drift"] = len(res["drift"])
    return res


def run_chunks(ctx, prop, gen, chunks, rule, module="Val_Spell"):
    """big sweeps: every chunk (a dict of generator parameters for ONE language and ONE range) is generated, executed and validated on
    its own (TLC -> harness -> TLC), 12 chunks in parallel; only failures and samples are kept."""
    total = [0]
    distinct = [0]

    def job(k):
        def run1():
            prm = chunks[k]
            tag = "c%03d" % k
            pj = ctx.path("params_%s.json" % tag)
            json.dump(prm, open(pj, "w"), ensure_ascii=False)
            req, n = vlib.generate(ctx, gen, None, "req_%s.ndjson" % tag, env={"PARAMS": pj}, heap="3g")
            obs = ctx.path("obs_%s.ndjson" % tag)
            h = vlib.harness(ctx, "text", req, obs)
            if h["rc"] != 0:
                ctx.failures.append(dict(verdict="harness-child-died", cls="harness-child-died", sig=dict(verdict="harness-child-died", rc=h["rc"])))
                return
            out = obs + ".res.json"
            vlib.tlc(module, os.path.join(vlib.SPEC, "Val.cfg"), ctx.path("meta_" + tag), env={"TRACE": obs, "OUT": out, "PROP": prop, "DRIFT": "0"},
                     heap="2500m", timeout=3600)
            res = json.load(open(out, encoding="utf-8"))
            total[0] += res["events"]
            want = {f["i"] for f in res["pbad"]}
            sample_at = 1 if k % 9 == 0 else 0
            cnt = 0
            for r in vlib.read_ndjson(obs):
                cnt += 1
                q = r["q"]
                if r["i"] in want:
                    f = [x for x in res["pbad"] if x["i"] == r["i"]][0]
                    m = r["multi"]
                    sig = dict(verdict=f["verdict"], lang=q["lang"], text=q["texts"][0], thr="0", rew=(m[0].get("rew") or {}).get("v"),
                               occs=json.dumps([(o["s"], o["e"], o["t"], o["o"]) for o in m[0].get("occs", [])], ensure_ascii=False))
                    ctx.failures.append(dict(verdict=f["verdict"], cls="%s/%s" % (f["verdict"], q["lang"]), sig=sig, request=q))
                elif sample_at and cnt == 777 and len(ctx.samples) < 8:
                    m = r["multi"]
                    ctx.samples.append(dict(lang=q["lang"], variant=q.get("v"), groups=q.get("gs"), phrase=q["texts"][0],
                                            validated=m[0].get("t2d"), in_sentence=q["texts"][-1] if len(q["texts"]) > 1 else None,
                                            rewritten=(m[-1].get("rew") or {}).get("v")))
            distinct[0] += cnt
            for pth in (req, obs, out, pj):
                try:
                    os.remove(pth)
                except OSError:
                    pass
        return run1
    vlib.run_pool([job(k) for k in range(len(chunks))], workers=12)
    ctx.evaluations += distinct[0]
    ctx.validated += total[0]
    ctx.nontrivial += distinct[0]
    ctx.extra["chunks"] = len(chunks)
    ctx.rule = rule
    tool = [f for f in ctx.failures if f["verdict"].startswith("tool-error")]
    if tool:
        raise vlib.ToolError("generator/validator disagree on the grammar: %s" % json.dumps(tool[0]["sig"], ensure_ascii=False)[:400])
