"""C13 -- the facade behaves exactly as the concrete interpreter; ISO codes resolve (DESIGN.md section 3, C13)."""
import json
import vlib
from checks import streams, c15


def run(ctx):
    vlib.model_check(ctx, "MC_Facade", "MC_Facade.cfg", workers=2, heap="2g")
    q = ctx.quick()
    prm = dict(langs=vlib.LANGS, randn=40 if q else 600, seed=ctx.seed % 100000, thrs=["0", "10"],
               want=["t2d", "rew", "toks", "occs", "iter", "iter1"], vias=["concrete", "facade", "lookup"])
    res, obs, h = streams.gen_exec_validate(ctx, "C13", prm, module="Val_Calls", gen="Gen_Facade", mode="text", min_lines=1500)
    # token streams carrying the two hints (voice pauses, not-a-number marks) through the three access paths: the scanner
    # consults the interpreter's separator / linking predicates in ways plain text never triggers
    prm2 = c15.params(ctx, ["batch", "iter"])
    prm2["randn"] = 400 if q else 6000
    pj = ctx.path("params_scan.json")
    json.dump(prm2, open(pj, "w"), ensure_ascii=False)
    req2, _ = vlib.generate(ctx, "Gen_Scan", None, "req_scan0.ndjson", env={"PARAMS": pj})
    rows = []
    for r in vlib.read_ndjson(req2):
        r["vias"] = prm["vias"]
        r["kind"] = "scan"
        r["i"] = 600000000 + r["i"]
        rows.append(r)
    req3 = vlib.write_ndjson(ctx.path("req_scan.ndjson"), rows)
    obs1 = ctx.path("obs_text.ndjson")
    import os
    os.rename(obs, obs1)
    obs = obs1
    res2, obs2, h2 = streams.exec_validate(ctx, "C13", req3, module="Val_Calls", mode="scan", min_lines=1500, drift=False)
    ctx.extra["hinted_streams"] = len(rows)
    ctx.evaluations *= 3
    n = 0
    nt = 0
    for r in vlib.read_ndjson(obs):
        n += 1
        c = (r.get("byvia") or [{}])[0]
        if (c.get("occs") or []) or any(s.get("st") == "ok" for s in c.get("steps", [])) or r["q"].get("kind") == "noncode":
            nt += 1
            if len(ctx.samples) < 5 and nt % 997 == 3:
                ctx.samples.append(dict(lang=r["q"]["lang"], kind=r["q"]["kind"], input=r["q"].get("text") or r["q"].get("words"),
                                        concrete=(c.get("rew") or {}).get("v") or [s["st"] for s in c.get("steps", [])]))
    ctx.nontrivial = nt
    ctx.rule = ("for each built-in language L: the words, ambiguous phrases and seeded texts of EVERY language through L's concrete type, the "
                "facade and the ISO lookup (validate, rewrite, tokens+annotation, search), word-by-word apply sequences with the builder "
                "projection (flags, marker, frozen, separator and linking predicates), token streams with every placement of the two hints (batch and "
                "lazy search), and lookups of 13 non-codes; non-trivial = the concrete "
                "result contains a number / an accepted word, or the case is a non-code lookup")
    ctx.assumptions += ["case and whitespace variants of the seven codes and other real ISO codes are outside the domain of the lookup clause"]
    return vlib.finish(ctx)


def replay(ctx, data):
    return streams.replay_requests(ctx, "C13", data, module="Val_Calls")
