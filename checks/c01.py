"""C01 -- cardinal round-trip below 10^12 (DESIGN.md section 3, C01)."""
import vlib
from checks import spell, streams, scanner_mc


def run(ctx):
    q = ctx.quick()
    scanner_mc.spell_mc(ctx)
    prm = dict(kind="card", upto=2000 if q else 1000000, rlow=[0, 1, 7, 11, 16, 21, 71, 80, 81, 88, 99, 100, 101, 181, 999] if q else spell.RQUICK_LOW + [3, 4, 8, 12, 13, 17, 19, 30, 60, 61, 90, 98, 108, 111, 121, 300, 480, 800, 881, 900],
               rhigh=[0, 1, 2, 100] if q else spell.RQUICK_HIGH + [81, 180], randn=2000 if q else 300000, seed=ctx.seed % 100000)
    spell.apply_conformance(ctx)
    spell.run_kind(ctx, "C01", "Gen_Spell", prm,
                   "numbers: every n < %d, the product of representative 3-digit groups (%d low x %d high values), %d seeded numbers below 10^12; "
                   "each in every orthographic variant of each language (en 3, fr 6, es 2, pt 3, it 3, de 4, nl 3), alone and inside one of 4 "
                   "sentence contexts; every distinct phrase is non-trivial" % (prm["upto"], len(prm["rlow"]), len(prm["rhigh"]), prm["randn"]))
    ctx.exhaustive = False
    ctx.extra["exhaustive_parts"] = ["every integer below %d in every language and variant" % prm["upto"]]
    ctx.assumptions += ["standard spelling = spec/Speller.tla (orthographic norms + forms pinned by the repository's tests)",
                        "TLC/SANY, the CommunityModules JSON reader and the harness projection are trusted"]
    return vlib.finish(ctx)


def replay(ctx, data):
    return streams.replay_requests(ctx, "C01", data, module="Val_Spell")
