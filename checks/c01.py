"""C01 -- cardinal round-trip below 10^12 (DESIGN.md section 3, C01)."""
import vlib
from checks import spell, streams, scanner_mc


def run(ctx):
    q = ctx.quick()
    scanner_mc.spell_mc(ctx)
    if q:
        prm = dict(kind="card", upto=2000, rlow=[0, 1, 7, 11, 16, 21, 71, 80, 81, 88, 99, 100, 101, 181, 999], rhigh=[0, 1, 2, 100], randn=2000,
                   seed=ctx.seed % 100000)
        spell.run_kind(ctx, "C01", "Gen_Spell", prm,
                       "numbers: every n < %d, the product of representative 3-digit groups (%d low x %d high values), %d seeded numbers below 10^12; "
                       "each in every orthographic variant of each language (en 3, fr 6, es 3, pt 3, it 4, de 7, nl 4), alone and inside one of 4 "
                       "sentence contexts; every distinct phrase is non-trivial" % (prm["upto"], len(prm["rlow"]), len(prm["rhigh"]), prm["randn"]))
    else:
        # every integer below 10^6 in every language and variant, in chunks; then representative groups and seeded numbers up to 10^12
        step = 50000
        chunks = [dict(kind="card", langs=[l], base=0, **{"from": a}, upto=step, rlow=[], rhigh=[], randn=0, seed=ctx.seed % 100000)
                  for l in vlib.LANGS for a in range(0, 1000000, step)]
        chunks += [dict(kind="card", langs=[l], base=0, **{"from": 0}, upto=0, rlow=spell.RQUICK_LOW, rhigh=[0, 1, 2, 21, 100, 999], randn=40000,
                        seed=ctx.seed % 100000) for l in vlib.LANGS]
        prm = dict(upto=1000000, rlow=spell.RQUICK_LOW, rhigh=[0, 1, 2, 21, 100, 999], randn=40000)
        spell.run_chunks(ctx, "C01", "Gen_Spell", chunks,
                         "EVERY integer below 10^6, the product of representative 3-digit groups (24 low x 6 high values) and 40000 seeded numbers below "
                         "10^12 per language; each in every orthographic variant (en 3, fr 6, es 3, pt 3, it 4, de 7, nl 4), alone and inside one of 4 "
                         "sentence contexts; every phrase is non-trivial")
    ctx.exhaustive = False
    ctx.extra["exhaustive_parts"] = ["every integer below %d in every language and variant" % prm["upto"]]
    ctx.assumptions += ["standard spelling = spec/Speller.tla (orthographic norms + forms pinned by the repository's tests)",
                        "TLC/SANY, the CommunityModules JSON reader and the harness projection are trusted"]
    return vlib.finish(ctx)


def replay(ctx, data):
    return streams.replay_requests(ctx, "C01", data, module="Val_Spell")
