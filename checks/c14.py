"""C14 -- interpreters are stateless, pure and shareable across threads (DESIGN.md section 3, C14).

TLC: MC_Memo -- all interleavings of concurrent two-step calls satisfy the sequential specification Memo; the
shared-scratch mutant is refuted.  Real code: one set of interpreters created once and shared; (1) reference results from a
fresh interpreter per call, (2) two sequential passes in opposite orders on the shared set, (3) N threads hammering the same
shared set in seeded pseudo-random orders; the child's stdout/stderr are captured.  TLC validates the merged history
against Memo (Val_Calls, VerdictC14).  Send + Sync is asserted at compile time in the t2n-threads binary, which only this
check builds: a tree whose interpreters are not Send + Sync makes that build fail with E0277, reported as a violation."""
import json
import os
import subprocess
import vlib
from checks import streams


def exec_validate_threads(ctx, req, nthreads):
    """runs the call set on shared interpreters (fresh reference, sequential passes, threads), validates the history against Memo"""
    obs = ctx.path("obs.ndjson")
    msg = vlib.build_threads_bin()
    if msg is not None:
        first = msg.split("\n")[0]
        ctx.failures.append(dict(verdict="interpreter-not-send-sync", cls="interpreter-not-send-sync",
                                 sig=dict(verdict="interpreter-not-send-sync", lang="", input="compile-time assertion: all eight interpreter types are Send + Sync",
                                          output=first), compiler_message=msg))
        return None
    h = vlib.harness(ctx, "threads", req, obs, args=[nthreads, ctx.seed])
    if h["rc"] != 0:
        ctx.failures.append(dict(verdict="harness-child-died", cls="harness-child-died",
                                 sig=dict(verdict="harness-child-died", rc=h["rc"], stderr=h["stderr"][-500:])))
        return None
    # the same calls in a process with another environment (locale, time zone, home, language variables): fresh-interpreter results
    # only, relabelled "env" and appended to the history -- a result may depend on the arguments only
    obs_env = ctx.path("obs_env.ndjson")
    env2 = dict(os.environ, LC_ALL="fr_CH.UTF-8", LANG="tr_TR.UTF-8", LC_NUMERIC="de_DE.UTF-8", LANGUAGE="fr_CH:de", TZ="Pacific/Kiritimati",
                HOME="/nonexistent", TEXT2NUM_LANG="nl", RUST_LOG="trace", NO_COLOR="1", COLUMNS="20")
    p2 = subprocess.run([vlib.THREADS_BIN, req, obs_env, "0", str(ctx.seed)], env=env2, stdout=subprocess.PIPE, stderr=subprocess.PIPE)
    if p2.returncode != 0:
        ctx.failures.append(dict(verdict="harness-child-died", cls="harness-child-died",
                                 sig=dict(verdict="harness-child-died", rc=p2.returncode, stderr=p2.stderr.decode("utf-8", "replace")[-500:])))
        return None
    nenv = 0
    with open(obs, "a", encoding="utf-8") as f:
        for line in open(obs_env, encoding="utf-8"):
            if '"who":"fresh"' in line:
                f.write(line.replace('"who":"fresh"', '"who":"env"', 1))
                nenv += 1
    h["records"] += nenv
    h["stdout"] += p2.stdout.decode("utf-8", "replace")
    h["stderr"] += p2.stderr.decode("utf-8", "replace")
    noise = len(h["stdout"]) + len(h["stderr"])
    vlib.log("bytes written by the calls on stdout + stderr: %d" % noise)
    with open(obs, "a", encoding="utf-8") as f:
        f.write(json.dumps({"k": -1, "who": "streams", "seq": 0, "res": str(noise)}) + "\n")
    ctx.evaluations = h["records"]
    # the reference records ("fresh") must be visible to every shard: validate in one piece per 1/POOL of the
    # non-reference records, each shard prefixed with the reference block
    lines = open(obs, "rb").read().splitlines(keepends=True)
    ref = [l for l in lines if b'"who":"fresh"' in l]
    rest = [l for l in lines if b'"who":"fresh"' not in l]
    k = vlib.POOL
    size = (len(rest) + k - 1) // k
    merged = dict(events=0, pbad=[])
    shards = []
    for s in range(k):
        part = rest[s * size:(s + 1) * size]
        if not part:
            continue
        p = ctx.path("hist%d.ndjson" % s)
        open(p, "wb").writelines(ref + part)
        shards.append((p, len(part)))
    results = [None] * len(shards)

    def job(j):
        def run1():
            p, _ = shards[j]
            vlib.tlc("Val_Calls", os.path.join(vlib.SPEC, "Val.cfg"), p + ".meta", env={"TRACE": p, "OUT": p + ".res", "PROP": "C14"},
                     heap="2500m", timeout=1800)
            results[j] = json.load(open(p + ".res", encoding="utf-8"))
        return run1
    vlib.run_pool([job(j) for j in range(len(shards))])
    bad = []
    for r, (p, npart) in zip(results, shards):
        ctx.validated += npart
        bad += r["pbad"]
    ctx.validated += len(ref)
    reqs = {r["i"]: r for r in vlib.read_ndjson(req)}
    klist = sorted(reqs)
    if noise:
        vlib.log("output on standard streams: %r" % (h["stdout"][:200] + h["stderr"][:200]))
    for f in bad:
        kk = f["i"]
        rq = reqs.get(klist[kk]) if 0 <= kk < len(klist) else None
        sig = dict(verdict=f["verdict"], lang=(rq or {}).get("lang"), input=(rq or {}).get("text") or (rq or {}).get("words") or (rq or {}).get("texts") or [(rq or {}).get("wa"), (rq or {}).get("wb")],
                   output=(h["stdout"][:200] + h["stderr"][:200]) if f["verdict"] == "output-on-standard-streams" else "")
        ctx.failures.append(dict(verdict=f["verdict"], cls="%s/%s" % (f["verdict"], sig["lang"]), sig=sig, request=rq))
    return reqs


def run(ctx):
    vlib.model_check(ctx, "MC_Memo", "MC_Memo.cfg", workers=4, heap="3g")
    mut = ctx.path("MC_Memo_mut.cfg")
    open(mut, "w").write(open(os.path.join(vlib.SPEC, "MC_Memo.cfg")).read().replace("Bug_SharedScratch = FALSE", "Bug_SharedScratch = TRUE"))
    vlib.mutant_refuted(ctx, "MC_Memo", mut, "Bug_SharedScratch")
    q = ctx.quick()
    prm = dict(langs=vlib.LANGS, randn=12 if q else 80, seed=ctx.seed % 100000, thrs=["0", "10"],
               want=["t2d", "rew", "toks", "occs", "iter1"], vias=["concrete", "facade"])
    pj = ctx.path("params.json")
    json.dump(prm, open(pj, "w"))
    req, n = vlib.generate(ctx, "Gen_Facade", None, "req_calls.ndjson", env={"PARAMS": pj})   # (spell.generate below writes req.ndjson)
    # families of inputs that differ only by inflection / spelling variant (what a too-coarse cache key would conflate):
    # every ordinal inflection of the same rank, every spelling variant of the same number, k leading zeros
    from checks import spell
    extra = []
    for kind, p2 in (("ord", dict(upto=130 if q else 1200, randn=60 if q else 600)), ("card", dict(upto=130 if q else 1200, randn=60 if q else 600)),
                     ("zeros", dict(upto=40 if q else 300, randn=20 if q else 200))):
        prm2 = dict(kind=kind, rlow=[0, 21, 181], rhigh=[0, 1], seed=ctx.seed % 100000, **p2)
        extra.append(spell.generate(ctx, "Gen_Spell", prm2))
        os.rename(extra[-1], ctx.path("req_%s.ndjson" % kind))
        extra[-1] = ctx.path("req_%s.ndjson" % kind)
    # two numbers being decoded at once by one interpreter (hidden state shared between builders): word sequences of Gen_Apply paired up
    prm3 = dict(allpairs=False, pairs=250 if q else 3000, randn=250 if q else 3000, seed=ctx.seed % 100000)
    ap = spell.generate(ctx, "Gen_Apply", prm3)
    seqs = {}
    for r in vlib.read_ndjson(ap):
        if not r["dec"] and len(r["words"]) >= 2:
            seqs.setdefault(r["lang"], []).append(r["words"])
    inter = ctx.path("req_interleave.ndjson")
    with open(inter, "w", encoding="utf-8") as f:
        for lang, ws in seqs.items():
            for j in range(0, len(ws) - 1, 2):
                for via in ("concrete", "facade"):
                    f.write(json.dumps({"mode": "interleave", "lang": lang, "via": via, "wa": ws[j], "wb": ws[j + 1]}, ensure_ascii=False) + "\n")
    extra.append(inter)
    with open(req, "ab") as f:
        base = 500000000
        for e in extra:
            for line in open(e, "rb"):
                d = json.loads(line)
                base += 1
                d["i"] = base
                d.setdefault("mode", "text")
                f.write((json.dumps(d, ensure_ascii=False) + "\n").encode("utf-8"))
    reqs = exec_validate_threads(ctx, req, 8 if q else 16)
    if reqs is None:
        return vlib.finish(ctx)
    nthreads = 8 if q else 16
    ctx.nontrivial = len(reqs)
    for r in list(reqs.values())[:3]:
        ctx.samples.append(dict(lang=r["lang"], mode=r.get("mode"), input=r.get("text") or r.get("words") or r.get("texts") or [r.get("wa"), r.get("wb")], vias=r.get("vias")))
    ctx.extra["threads"] = nthreads
    ctx.extra["distinct_calls"] = len(reqs)
    ctx.rule = ("call set generated by Gen_Facade (all languages' words and seeded texts through every language, concrete type and facade, "
                "text API and word-by-word apply); history = fresh-interpreter reference + 2 sequential passes + %d threads x %d calls on one "
                "shared set of interpreters + the same calls once more in a process with a different environment (locale, language and time-zone "
                "variables); non-trivial/distinct = distinct calls" % (nthreads, len(reqs)))
    ctx.assumptions += ["thread schedules are sampled by the OS scheduler, not enumerated; MC_Memo enumerates all interleavings of the model",
                        "Send + Sync of all eight interpreter types is asserted at compile time in the t2n-threads binary (a failure is a violation)"]
    return vlib.finish(ctx)


def replay(ctx, data):
    reqs = []
    for c in data.get("cases", []):
        if c.get("request"):
            reqs.append(c["request"])
    req = vlib.write_ndjson(ctx.path("req.ndjson"), reqs)
    exec_validate_threads(ctx, req, 8)
    ctx.rule = "replay of %d recorded calls on shared interpreters" % len(reqs)
    return vlib.finish(ctx)
