"""C16 -- leading zeros are kept, zeros never attach after a number (DESIGN.md section 3, C16)."""
import vlib
from checks import spell, streams, scanner_mc


def run(ctx):
    q = ctx.quick()
    scanner_mc.spell_mc(ctx)
    if q:
        prm = dict(kind="zeros", upto=1500, rlow=[0, 1, 7, 10, 21, 80, 100, 101, 181, 999], rhigh=[0, 1, 2, 21, 100], randn=1500, seed=ctx.seed % 100000)
        spell.run_kind(ctx, "C16", "Gen_Spell", prm,
                       "k in 0..6 zero words followed by the spelling of n in [1,10^9): every n < %d, representative groups, %d seeded numbers, in every "
                       "variant and language, alone and in a sentence; plus 'n zero' and the lone zero; every distinct phrase is non-trivial"
                       % (prm["upto"], prm["randn"]))
    else:
        step = 25000
        chunks = [dict(kind="zeros", langs=[l], base=0, **{"from": a}, upto=step, rlow=[], rhigh=[], randn=0, seed=ctx.seed % 100000)
                  for l in vlib.LANGS for a in range(0, 100000, step)]
        chunks += [dict(kind="zeros", langs=[l], base=0, **{"from": 0}, upto=0, rlow=spell.RQUICK_LOW, rhigh=[0, 1, 2, 21, 100], randn=30000,
                        seed=ctx.seed % 100000) for l in vlib.LANGS]
        spell.run_chunks(ctx, "C16", "Gen_Spell", chunks,
                         "k in 0..6 zero words followed by the spelling of n: EVERY n < 10^5, representative groups and 30000 seeded numbers below 10^9 per "
                         "language, in every variant, alone and in a sentence; plus 'n zero' and the lone zero")
    ctx.assumptions += ["numbers whose spelling falls under the recorded C01 finding (de eine Million) are kept out of this domain"]
    return vlib.finish(ctx)


def replay(ctx, data):
    return streams.replay_requests(ctx, "C16", data, module="Val_Spell")
