"""C16 -- leading zeros are kept, zeros never attach after a number (DESIGN.md section 3, C16)."""
import vlib
from checks import spell, streams, scanner_mc


def run(ctx):
    q = ctx.quick()
    scanner_mc.spell_mc(ctx)
    prm = dict(kind="zeros", upto=1500 if q else 100000, rlow=[0, 1, 7, 10, 21, 80, 100, 101, 181, 999] if q else spell.RQUICK_LOW,
               rhigh=[0, 1, 2, 21, 100] if q else spell.RQUICK_HIGH, randn=1500 if q else 100000, seed=ctx.seed % 100000)
    spell.run_kind(ctx, "C16", "Gen_Spell", prm,
                   "k in 0..6 zero words followed by the spelling of n in [1,10^9): every n < %d, representative groups, %d seeded numbers, in every "
                   "variant and language, alone and in a sentence; plus 'n zero' and the lone zero; every distinct phrase is non-trivial"
                   % (prm["upto"], prm["randn"]))
    ctx.assumptions += ["numbers whose spelling falls under the recorded C01 finding (de eine Million) are kept out of this domain"]
    return vlib.finish(ctx)


def replay(ctx, data):
    return streams.replay_requests(ctx, "C16", data, module="Val_Spell")
