"""C17 -- see DESIGN.md section 3 (C17), spec/Gen_Twins.tla and spec/Props.tla (VerdictC17)."""
from checks import twins, streams


def run(ctx):
    return twins.run_prop(ctx, "C17")


def replay(ctx, data):
    return streams.replay_requests(ctx, "C17", data, module="Val_Twins")
