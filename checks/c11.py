"""C11 -- see DESIGN.md section 3 (C11), spec/Gen_Twins.tla and spec/Props.tla (VerdictC11)."""
from checks import twins, streams


def run(ctx):
    return twins.run_prop(ctx, "C11")


def replay(ctx, data):
    return streams.replay_requests(ctx, "C11", data, module="Val_Twins")
