"""Shared pipeline of the stream-set properties (C02, C06, C07, C09):
TLC generates texts from the stream alphabets (Gen_Streams) -> harness `text` runs the real tokenizer,
annotator, scanner, validator and rewriter on them at every threshold -> TLC evaluates the property
predicate of Props.tla on every observation (Val_Streams)."""
import json
import os
import vlib

THRS_POLICY = ["0", "-inf", "-1", "0.5", "1", "5", "5.5", "10", "13", "100", "inf", "nan"]
THRS_BASIC = ["0", "10"]


def params(ctx, want, thrs, langs=None, scale=1.0):
    q = ctx.quick()
    return dict(langs=langs or vlib.LANGS, exlen=2, exseps=[1, 2, 3] if q else [1, 2, 3, 4, 5],
                randn=int((600 if q else 12000) * scale), randlen=6 if q else 8, seed=ctx.seed % 100000,
                thrs=thrs, want=want)


def gen_exec_validate(ctx, prop, prm, module="Val_Streams", gen="Gen_Streams", mode="text", min_lines=1500, drift=True):
    pj = ctx.path("params.json")
    json.dump(prm, open(pj, "w"), ensure_ascii=False)
    req, n = vlib.generate(ctx, gen, None, "req.ndjson", env={"PARAMS": pj})
    return exec_validate(ctx, prop, req, module=module, mode=mode, min_lines=min_lines, drift=drift)


def exec_validate(ctx, prop, req, module="Val_Streams", mode="text", min_lines=1500, drift=True, **hk):
    obs = ctx.path("obs.ndjson")
    h = vlib.harness(ctx, mode, req, obs, **hk)
    if h["rc"] != 0:
        # the child crashed or hung: that is data about the code under test (a panic is caught per call,
        # so this is an abort/stack overflow/timeout)
        ctx.failures.append(dict(verdict="harness-child-died", cls="harness-child-died",
                                 sig=dict(verdict="harness-child-died", rc=h["rc"], stderr=h["stderr"][-500:])))
        return None, obs, h
    ctx.evaluations += h["records"]
    res = vlib.validate(ctx, module, "Val.cfg", obs, trace=False, min_lines=min_lines,
                        env={"PROP": prop, "DRIFT": ("3" if drift == 3 else "1") if drift else "0"}, heap="2500m")
    ctx.extra["drift_checked"] = ctx.extra.get("drift_checked", 0) + res.get("drift_checked", 0)
    want = {f["i"] for f in res["pbad"]}
    recs = {}
    if want:
        for r in vlib.read_ndjson(obs):
            if r["i"] in want:
                recs[r["i"]] = r
    for f in res["pbad"]:
        r = recs.get(f["i"], {})
        q = r.get("q", {})
        k = f.get("k", 1)
        if "toks" in q:
            sig = dict(verdict=f["verdict"], lang=q.get("lang"), thr=q.get("thr"),
                       tokens=json.dumps([(t["t"], "sep" if t.get("sep") else "nan" if t.get("nan") else "") for t in q["toks"]], ensure_ascii=False),
                       batch=json.dumps([(o["s"], o["e"], o["t"]) for o in (r.get("batch") or {}).get("v", [])], ensure_ascii=False))
            ctx.failures.append(dict(verdict=f["verdict"], cls="%s/%s" % (f["verdict"], q.get("lang")), sig=sig, request=q))
            continue
        texts = q.get("texts") or [q.get("text", "")]
        thrs = q.get("thrs") or [q.get("thr", "0")]
        multi = r.get("multi") or [r]
        nthr = len(thrs)
        m = multi[min(len(multi), k) - 1] if multi else {}
        sig = dict(verdict=f["verdict"], lang=q.get("lang"), text=texts[0] if texts else "",
                   thr=thrs[(k - 1) % nthr] if thrs else "", rew=(m.get("rew") or {}).get("v"),
                   occs=json.dumps([(o["s"], o["e"], o["t"], o["o"]) for o in m.get("occs", [])], ensure_ascii=False))
        if "detail" in f:
            sig["detail"] = f["detail"]
        ctx.failures.append(dict(verdict=f["verdict"], cls="%s/%s" % (f["verdict"], q.get("lang")), sig=sig,
                                 request=q))
    return res, obs, h


def vocab_pairs(ctx, prop, want, thrs=("0",), drift=True):
    """texts over the FULL vocabulary of each interpreter model: every word, every ordered pair of words (quick: all pairs too,
    the vocabularies have 83..201 entries), seeded 3/4-word texts -- Gen_VocabTexts; judged by the verdict of `prop`"""
    from checks import spell
    q = ctx.quick()
    prm = dict(allpairs=True, pairs=0, randn=1500 if q else 40000, seed=ctx.seed % 100000, thrs=list(thrs), want=want)
    req = spell.generate(ctx, "Gen_VocabTexts", prm)
    os.rename(req, ctx.path("req_vocab.ndjson"))
    res, obs, h = exec_validate(ctx, prop, ctx.path("req_vocab.ndjson"), module="Val_Streams", mode="text", min_lines=3000, drift=drift)
    ctx.extra["vocabulary_pair_texts"] = h["records"]
    os.rename(obs, ctx.path("obs_vocab.ndjson"))
    return res


def account(ctx, obs, rule, nontrivial):
    """coverage accounting measured on this run: distinct texts and those that are non-trivial by `nontrivial(rec)`"""
    seen = set()
    nt = 0
    for r in vlib.read_ndjson(obs):
        q = r["q"]
        key = (q.get("lang"), tuple(q.get("texts") or [q.get("text")]))
        if key in seen:
            continue
        seen.add(key)
        if nontrivial(r):
            nt += 1
            if len(ctx.samples) < 5 and nt % 97 == 1:
                m = (r.get("multi") or [r])[0]
                ctx.samples.append(dict(lang=q.get("lang"), text=key[1][0], thr=(q.get("thrs") or [q.get("thr")])[0],
                                        rewritten=(m.get("rew") or {}).get("v"),
                                        occurrences=[(o["s"], o["e"], o["t"]) for o in m.get("occs", [])]))
    ctx.nontrivial = nt
    ctx.extra["distinct_inputs"] = len(seen)
    ctx.rule = rule


def has_number(r):
    m = (r.get("multi") or [r])[0]
    return bool(m.get("occs"))


def replay_requests(ctx, prop, data, module="Val_Streams", mode="text"):
    reqs = []
    seen = set()
    for c in data.get("cases", []):
        q = c.get("request")
        if q and q.get("i") not in seen:
            seen.add(q.get("i"))
            reqs.append(q)
    req = vlib.write_ndjson(ctx.path("req.ndjson"), reqs)
    exec_validate(ctx, prop, req, module=module, mode=mode)
    ctx.rule = "replay of %d recorded requests" % len(reqs)
    return vlib.finish(ctx)
