"""C08 -- numbers said one after another are not fused; digit dictation keeps every digit (DESIGN.md section 3, C08)."""
import shutil
import vlib
from checks import spell, streams, scanner_mc


def run(ctx):
    q = ctx.quick()
    scanner_mc.model_check(ctx, "C08")
    scanner_mc.dict_mc(ctx)
    prm = dict(kind="pair", seed=ctx.seed % 100000, pairvariants=1 if q else 2, upto=0, rlow=[0], rhigh=[0], randn=0)
    spell.run_kind(ctx, "C08", "Gen_Spell", prm, "")
    n_pairs = ctx.extra.get("distinct_phrases", 0)
    shutil.move(ctx.path("obs.ndjson"), ctx.path("obs_pairs.ndjson"))
    prm2 = dict(kind="dict", seed=ctx.seed % 100000, dictlen=4 if q else 6, randn=3000 if q else 60000, upto=0, rlow=[0], rhigh=[0])
    spell.run_kind(ctx, "C08", "Gen_Spell", prm2,
                   "all 10^4 pairs (a,b) in [0,99]^2 x {blank, conjunction} in every language (%d spelling variant(s)), judged against the set "
                   "Allowed = {a j b} u {c : lexemes(c) = lexemes(a) lexemes(b)} u (zero rule); every digit sequence up to length %d and %d seeded "
                   "sequences of length 7-8 dictated digit by digit; every distinct phrase is non-trivial" % (prm["pairvariants"], prm2["dictlen"], prm2["randn"]))
    ctx.nontrivial += n_pairs
    ctx.extra["distinct_pair_phrases"] = n_pairs
    ctx.extra["exhaustive_parts"] = ["all pairs below 100 x both joiners x 7 languages", "all digit sequences up to length %d" % prm2["dictlen"]]
    return vlib.finish(ctx)


def replay(ctx, data):
    return streams.replay_requests(ctx, "C08", data, module="Val_Spell")
