"""./check selftest -- demonstrates that the specification is bound to the code and that the checks are not vacuous:
 1. fixtures recorded once from the UNREPAIRED tree (selftest/pinned_*.ndjson): every original defect must still be found;
 2. a recorded trace of the real DigitString is accepted, and the same trace with ONE corrupted field is rejected;
 3. every Bug_* mutant of the model is refuted by TLC (negative controls).
Exit 0 when everything behaves as expected, 2 otherwise (this is a tool self-test, not a property check)."""
import json
import os
import vlib


def run_validator(ctx, module, prop, trace, tag):
    out = ctx.path("res_%s.json" % tag)
    cfg = os.path.join(vlib.SPEC, "Trace_C12.cfg" if module == "Trace_C12" else "Val.cfg")
    vlib.tlc(module, cfg, ctx.path("meta_" + tag), env={"TRACE": trace, "OUT": out, "PROP": prop, "DRIFT": "1"}, heap="2g",
             deque=(module == "Trace_C12"), timeout=900)
    return json.load(open(out, encoding="utf-8"))


def run(ctx):
    ok = True
    exp = json.load(open(os.path.join(vlib.ROOT, "selftest", "expected.json"), encoding="utf-8"))
    for k, fx in enumerate(exp["fixtures"]):
        res = run_validator(ctx, fx["module"], fx["prop"], os.path.join(vlib.ROOT, "selftest", fx["file"]), "fx%d" % k)
        found = {x["verdict"] for x in res["pbad"]}
        missing = [v for v in fx["expect"] if v not in found]
        vlib.log("fixture %-26s %s: %d events, verdicts %s%s" % (fx["file"], fx["prop"], res["events"], sorted(found),
                                                                 "  MISSING " + str(missing) if missing else ""))
        ok = ok and not missing
    # 2. a clean real trace is accepted; one corrupted field is rejected
    req = ctx.path("req.ndjson")
    vlib.write_ndjson(req, [{"i": 1, "ops": [{"op": "put", "a": "20", "p": 0, "q": 0}, {"op": "put", "a": "5", "p": 0, "q": 0},
                                              {"op": "shift", "a": "", "p": 3, "q": 0}, {"op": "put", "a": "100", "p": 0, "q": 0},
                                              {"op": "freeze", "a": "", "p": 0, "q": 0}, {"op": "put", "a": "1", "p": 0, "q": 0}]}])
    obs = ctx.path("obs.ndjson")
    vlib.harness(ctx, "ds", req, obs)
    good = run_validator(ctx, "Trace_C12", "C12", obs, "good")
    lines = [json.loads(l) for l in open(obs, encoding="utf-8")]
    lines[2]["r"] = "25001"
    lines[2]["b"] = "25001"          # the recorded result of shift(3) on 25 is falsified: 25000 -> 25001
    bad_path = vlib.write_ndjson(ctx.path("obs_corrupt.ndjson"), lines)
    bad = run_validator(ctx, "Trace_C12", "C12", bad_path, "bad")
    vlib.log("real trace: %d P-failures, %d drift; corrupted trace: %d P-failures (%s), %d drift" % (
        len(good["pbad"]), len(good["drift"]), len(bad["pbad"]), sorted({x["verdict"] for x in bad["pbad"]}), len(bad["drift"])))
    ok = ok and not good["pbad"] and not good["drift"] and bad["pbad"] and bad["drift"]
    # 3. negative controls
    from checks import c12
    c12.mutants(ctx)
    for m in ("en_mut_shift", "en_mut_hold", "en_mut_thr", "nl_mut_retry"):
        vlib.mutant_refuted(ctx, "MC_Scanner", os.path.join(vlib.SPEC, "MC_Scanner_%s.cfg" % m), "Scanner/" + m)
    base = open(os.path.join(vlib.SPEC, "MC_Memo.cfg")).read()
    p = ctx.path("memo_mut.cfg")
    open(p, "w").write(base.replace("Bug_SharedScratch = FALSE", "Bug_SharedScratch = TRUE"))
    vlib.mutant_refuted(ctx, "MC_Memo", p, "Bug_SharedScratch")
    base = open(os.path.join(vlib.SPEC, "MC_Facade.cfg")).read()
    for b in ("Bug_LookupMissesPt", "Bug_VariantsSwapped", "Bug_AnnotateNotForwarded"):
        p = ctx.path("facade_%s.cfg" % b)
        open(p, "w").write(base.replace("%s = FALSE" % b, "%s = TRUE" % b))
        vlib.mutant_refuted(ctx, "MC_Facade", p, b)
    vlib.log("mutants: %s" % ctx.extra.get("mutants"))
    print("SELFTEST %s" % ("OK" if ok else "FAILED"))
    return 0 if ok else 2
