"""Model-checking runs shared by the checks (M |= P inside bounds; counts go to the evidence).
MC_Scanner: S4/S5 token by token, thresholds in lockstep, the Props.tla predicates as invariants (C06 C07 C09 C15 C02).
MC_Api: the whole-library model against the two-run properties (C10 C11 C17 C18). MC_Tokenizer: S6. MC_Spell/MC_SpellOrd:
the spelling grammars driving the interpreter models word by word (C01 C16 C04). MC_Dict: dictation grouping (C08)."""
import os
import vlib

LANGS = ["en", "fr", "es", "pt", "it", "de", "nl"]


def model_check(ctx, prop):
    q = ctx.quick()
    runs = []
    if prop in ("C10", "C11", "C17", "C18"):
        if q:
            extra = ["es", "nl", "it", "pt"][ctx.seed % 4]
            runs += [("MC_Api", "MC_Api_%s_quick.cfg" % l) for l in ("en", "fr", "de", extra)]
        else:
            runs += [("MC_Api", "MC_Api_%s.cfg" % l) for l in LANGS]
        if prop in ("C11", "C17"):
            runs += [("MC_Tokenizer", "MC_Tokenizer.cfg")]
        vlib.model_check_many(ctx, runs, workers_each=3 if q else 4, heap="4g")
        return
    if prop in ("C02", "C03"):
        runs += [("MC_Tokenizer", "MC_Tokenizer.cfg")]
    if q:
        runs += [("MC_Scanner", "MC_Scanner_en_quick.cfg"), ("MC_Scanner", "MC_Scanner_en_hints.cfg"), ("MC_Scanner", "MC_Scanner_fr_quick.cfg"),
                 ("MC_Scanner", "MC_Scanner_%s_quick.cfg" % ["de", "es", "it", "nl", "pt"][ctx.seed % 5])]
        vlib.model_check_many(ctx, runs, workers_each=4, heap="4g")
    else:
        runs += [("MC_Scanner", "MC_Scanner_en_thorough.cfg"), ("MC_Scanner", "MC_Scanner_en_thorough_hints.cfg")]
        runs += [("MC_Scanner", "MC_Scanner_%s_thorough.cfg" % l) for l in ["fr", "de", "es", "it", "nl", "pt"]]
        vlib.model_check_many(ctx, runs, workers_each=4, heap="6g")
    if prop == "C07":
        # S2 as a state machine over the full vocabulary: a rejected word changes nothing (failure atomicity lifted to the interpreters)
        langs = ["en", "fr"] if q else LANGS
        vlib.model_check_many(ctx, [("MC_Lang", "MC_Lang_%s.cfg" % l) for l in langs], workers_each=4, heap="4g")
        vlib.mutant_refuted(ctx, "MC_Lang", os.path.join(vlib.SPEC, "MC_Lang_en_mut_shift.cfg"), "MC_Lang/Bug_ShiftNonAtomic")
    MUT = {"C07": ["en_mut_shift"], "C09": ["en_mut_thr", "en_mut_hold"], "C06": ["en_mut_hold"], "C02": ["en_mut_hold"], "C15": ["nl_mut_retry"]}
    for m in MUT.get(prop, []):
        vlib.mutant_refuted(ctx, "MC_Scanner", os.path.join(vlib.SPEC, "MC_Scanner_%s.cfg" % m), m)


def spell_mc(ctx, ordinals=False):
    q = ctx.quick()
    if ordinals:
        runs = [("MC_SpellOrd", "MC_SpellOrd_%s.cfg" % l) for l in LANGS]
    else:
        runs = [("MC_Spell", "MC_Spell_%s_%s.cfg" % (l, "quick" if q else "thorough")) for l in LANGS]
    vlib.model_check_many(ctx, runs, workers_each=2 if q else 4, heap="3g" if q else "6g")


def dict_mc(ctx):
    vlib.model_check_many(ctx, [("MC_Dict", "MC_Dict.cfg"), ("MC_Dict", "MC_Dict_fr.cfg"), ("MC_Dict", "MC_Dict_de.cfg"), ("MC_Dict", "MC_Dict_nl.cfg")],
                          workers_each=3, heap="3g")


def dec_mc(ctx):
    vlib.model_check_many(ctx, [("MC_Dec", "MC_Dec_%s.cfg" % l) for l in LANGS], workers_each=2, heap="3g")
