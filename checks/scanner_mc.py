"""Model checking of the scanner-level specification shared by C06, C07, C09, C15 (and C02's splice precondition):
MC_Scanner explores S4/S5 token by token over a stream alphabet, all thresholds in lockstep, and checks the
same Props.tla predicates that judge the real code's observations."""
import os
import vlib


def model_check(ctx, prop):
    if ctx.quick():
        vlib.model_check(ctx, "MC_Scanner", "MC_Scanner_en_quick.cfg", workers=8, heap="4g")
        vlib.model_check(ctx, "MC_Scanner", "MC_Scanner_en_hints.cfg", workers=4, heap="3g")
    else:
        vlib.model_check(ctx, "MC_Scanner", "MC_Scanner_en_thorough.cfg", workers=14, heap="8g")
        vlib.model_check(ctx, "MC_Scanner", "MC_Scanner_en_thorough_hints.cfg", workers=14, heap="8g")
    if prop in ("C07",):
        vlib.mutant_refuted(ctx, "MC_Scanner", os.path.join(vlib.SPEC, "MC_Scanner_en_mut_shift.cfg"), "Bug_ShiftNonAtomic")
